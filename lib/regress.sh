#!/bin/bash
# regress.sh seeds|benign [name-filter]
# Regression of the checks themselves, on a scratch pair outside /repo and /verif (removed afterwards):
#   seeds  : every seeded change seeded/S* must be reported (exit 1) by the quick check of the property it breaks;
#   benign : every behaviour-preserving change benign/B* must leave the quick checks of its properties at exit 0.
# Works on a copy of the committed /verif tree and a detached worktree of /repo's HEAD; /repo itself is never touched.
set -u
mode="${1:-seeds}"; filter="${2:-}"
V=/tmp/regress_v_$$; R=/tmp/regress_r_$$
git -C /repo worktree add -q --detach "$R" HEAD || exit 2
mkdir -p "$V" && git -C /verif archive HEAD | tar -x -C "$V"
sed -i "s#path = \"/repo\"#path = \"$R\"#" "$V/harness/Cargo.toml"
cleanup() { git -C /repo worktree remove --force "$R" >/dev/null 2>&1; rm -rf "$R" "$V"; }
trap cleanup EXIT
run() {  # <patch> <expected rc> <props...>
  local patch="$1" want="$2"; shift 2
  git -C "$R" checkout -q -- . ; git -C "$R" apply "$patch" || { echo "  patch does not apply"; return; }
  for p in "$@"; do
    s=$(date +%s); out=$(cd "$V" && ./check "$p" --tier quick 2>&1); rc=$?; e=$(date +%s)
    verdict=OK; [ "$rc" != "$want" ] && verdict=UNEXPECTED
    echo "  $p rc=$rc (want $want) secs=$((e-s)) $verdict $(echo "$out" | grep -E '^violated clause' | head -1 | cut -c1-140)"
  done
  git -C "$R" checkout -q -- .
}
if [ "$mode" = seeds ]; then
  for d in /verif/seeded/S*${filter}*; do
    p=$(python3 -c "import json;print(json.load(open('$d/meta.json'))['breaks_property'])")
    echo "## $(basename $d) -> $p"; run "$d/patch.diff" 1 "$p"
  done
else
  declare -A props=( [B01]="C14 C12" [B02]="C14 C01 C12 C06 C19" [B03]="C13 C06 C12 C01" [B04]="C01 C06 C19 C07" [B05]="C02 C06 C19 C10"
                     [B06]="C01 C02 C06 C07" [B07]="C17 C06 C19 C20" [B08]="C20 C17" [B09]="C09 C11 C19" [B10]="C05 C18 C19" [B11]="C10 C11 C19" [B12]="C04 C15 C16 C11"
                     [B13]="C01 C02 C06 C07" [B14]="C14 C01 C12 C06" [B15]="C13 C01 C06 C12" [B16]="C02 C06 C10" [B17]="C05 C18 C19" [B18]="C05 C18 C19"
                     [B19]="C14 C12" [B20]="C14 C12 C01" [B21]="C04 C15 C16 C11 C19" [B22]="C04 C15 C16" [B23]="C09 C11 C19" [B24]="C10 C11 C19"
                     [B25]="C13 C06 C12 C01" [B26]="C13 C12 C01" [B27]="C14 C12" [B28]="C14 C12 C06 C01" [B29]="C02 C06 C10" [B30]="C17 C06 C20 C19"
                     [B31]="C09 C11" [B32]="C10 C11" [B33]="C05 C18" [B34]="C05 C18 C19" [B35]="C04 C15 C16 C11" [B36]="C04 C15 C16 C19" )
  for d in /verif/benign/B*${filter}*; do
    b=$(basename $d | cut -c1-3)
    echo "## $(basename $d) -> ${props[$b]}"; run "$d/patch.diff" 0 ${props[$b]}
  done
fi
