#!/usr/bin/env python3
"""Rewrites the last column of the table in DESIGN.md section 0.6 from the property registry (lib/pipelines.py PROPS),
so that DESIGN.md, MANIFEST.json and the evidence `rule` fields say the same thing."""
import os, re, sys
sys.path.insert(0, os.path.dirname(os.path.abspath(__file__)))
import pipelines
root = os.path.dirname(os.path.dirname(os.path.abspath(__file__)))
path = os.path.join(root, "DESIGN.md")
lines = open(path).read().split("\n")
out = []
inside = False
for ln in lines:
    if ln.startswith("### 0.6"):
        inside = True
    elif ln.startswith("#") and not ln.startswith("### 0.6"):
        inside = False
    m = inside and re.match(r"^\| (C\d\d) \| ([a-z_]+) \| (.*?) \| (.*) \|$", ln)
    if m and m.group(1) in pipelines.PROPS and len(ln) > 200:
        pid = m.group(1)
        p = pipelines.PROPS[pid]
        ln = "| %s | %s | %s | %s |" % (pid, p["level"], m.group(3), p.get("rule", "").replace("|", "\\|"))
    out.append(ln)
open(path, "w").write("\n".join(out))
print("DESIGN.md section 0.6 refreshed")
