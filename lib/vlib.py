"""Driver library: TLC / harness invocation, P-record adjudication, evidence, findings."""
import json, os, re, shutil, subprocess, sys, time, hashlib
from concurrent.futures import ThreadPoolExecutor

ROOT = os.path.dirname(os.path.dirname(os.path.abspath(__file__)))
SPEC = os.path.join(ROOT, "spec")
HARNESS = os.path.join(ROOT, "harness")
VH = os.path.join(HARNESS, "target", "debug", "vh")
JAR = "/opt/veriftools/tla/tla2tools.jar"
CM = "/opt/veriftools/tla/CommunityModules-deps.jar"


class ToolError(Exception):
    pass


def log(*a):
    print(*a, flush=True)


def sh(cmd, cwd=None, env=None, timeout=None, check=True):
    e = dict(os.environ)
    if env:
        e.update(env)
    p = subprocess.run(cmd, cwd=cwd, env=e, stdout=subprocess.PIPE, stderr=subprocess.STDOUT, text=True, timeout=timeout)
    if check and p.returncode != 0:
        raise ToolError("command failed (%d): %s\n%s" % (p.returncode, " ".join(cmd), p.stdout[-4000:]))
    return p


_built = False


def build_harness():
    """Rebuild the harness against /repo's current working tree (hooks on)."""
    global _built
    if _built:
        return
    t = time.time()
    env = {"CARGO_NET_OFFLINE": "true"}
    p = sh(["cargo", "build", "--offline", "--quiet"], cwd=HARNESS, env=env, check=False, timeout=1800)
    if p.returncode != 0:
        raise ToolError("harness build failed (does /repo still compile with --cfg pdatastructs_verif?)\n" + p.stdout[-6000:])
    p = sh([VH, "selftest"], check=False)
    if p.returncode != 0:
        raise ToolError("harness self-test failed\n" + p.stdout[-2000:])
    _built = True
    log("[build] harness rebuilt from /repo working tree in %.1fs" % (time.time() - t))


def tlc_classpath():
    cp = [JAR]
    d = os.path.dirname(JAR)
    for f in sorted(os.listdir(d)):
        if f.endswith(".jar") and f != os.path.basename(JAR):
            cp.append(os.path.join(d, f))
    return ":".join(cp)


_tlc_n = [0]


def tlc(module, cfg_text, work, env=None, workers=1, timeout=3600, xmx="4g", extra=None, dfs=False, out_name=None):
    """Run TLC on spec/<module>.tla with the given cfg text.  Returns (stdout_path, text)."""
    _tlc_n[0] += 1
    n = _tlc_n[0]
    os.makedirs(work, exist_ok=True)
    tag = "%s_%d_%d" % (module, os.getpid(), n)
    cfg = os.path.join(work, tag + ".cfg")
    with open(cfg, "w") as f:
        f.write(cfg_text)
    meta = os.path.join(work, "meta_" + tag)
    outp = os.path.join(work, out_name or (tag + ".out"))
    # single-worker runs (generation, adjudication) are GC-bound: the serial collector is 2-3x faster
    # there than ParallelGC with 16 GC threads
    jopts = ["-Xss512m", "-Xmx" + xmx] + (["-XX:+UseSerialGC"] if workers == 1 else ["-XX:+UseParallelGC", "-XX:ParallelGCThreads=%d" % min(8, workers)])
    if dfs:
        jopts.append("-Dtlc2.tool.queue.IStateQueue=StateDeque")
    cmd = ["java"] + jopts + ["-cp", tlc_classpath(), "tlc2.TLC", "-workers", str(workers), "-metadir", meta,
                               "-noGenerateSpecTE", "-config", cfg] + (extra or []) + [module + ".tla"]
    e = dict(os.environ)
    if env:
        e.update({k: str(v) for k, v in env.items()})
    t = time.time()
    with open(outp, "w") as fo:
        try:
            p = subprocess.run(cmd, cwd=SPEC, env=e, stdout=fo, stderr=subprocess.STDOUT, timeout=timeout)
            rc = p.returncode
        except subprocess.TimeoutExpired:
            rc = -9
    shutil.rmtree(meta, ignore_errors=True)
    return outp, rc, time.time() - t


def tlc_stats(path):
    """Parse the TLC summary of an output file (without loading emitted payload lines)."""
    st = {"generated": 0, "distinct": 0, "depth": 0, "error": None, "messages": []}
    with open(path, errors="replace") as f:
        for line in f:
            if line.startswith('"{'):
                continue
            m = re.search(r"(\d+) states generated, (\d+) distinct states found", line)
            if m:
                st["generated"], st["distinct"] = int(m.group(1)), int(m.group(2))
            m = re.search(r"depth of the complete state graph search is (\d+)", line)
            if m:
                st["depth"] = int(m.group(1))
            if line.startswith("Error:") or "is violated" in line or "Assert" in line and "failed" in line:
                if st["error"] is None:
                    st["error"] = line.strip()
                st["messages"].append(line.strip())
            if "The first argument of Assert evaluated to FALSE" in line or "The error occurred when" in line:
                st["messages"].append(line.strip())
    return st


def tlc_error_detail(path, maxlines=60):
    out = []
    grab = False
    with open(path, errors="replace") as f:
        for line in f:
            if line.startswith('"{'):
                continue
            if line.startswith("Error:"):
                grab = True
            if grab:
                out.append(line.rstrip())
                if len(out) >= maxlines:
                    break
    return "\n".join(out)


def model_check(module, constants, invariants, work, workers=12, timeout=3600, spec="Spec", constraint=None, extra_cfg="", xmx="8g"):
    """E1: exhaustive TLC run.  Returns dict(states, transitions, ok, error)."""
    cfg = "CONSTANTS\n" + "".join(" %s = %s\n" % kv for kv in constants.items())
    cfg += "SPECIFICATION %s\n" % spec
    if invariants:
        cfg += "INVARIANTS " + " ".join(invariants) + "\n"
    if constraint:
        cfg += "CONSTRAINT %s\n" % constraint
    cfg += "CHECK_DEADLOCK FALSE\n" + extra_cfg
    outp, rc, secs = tlc(module, cfg, work, workers=workers, timeout=timeout, xmx=xmx)
    st = tlc_stats(outp)
    if rc == -9:
        raise ToolError("TLC timeout on %s %s" % (module, constants))
    ok = (rc == 0 and st["error"] is None)
    res = {"module": module, "constants": constants, "invariants": invariants, "states": st["distinct"],
           "transitions": st["generated"], "depth": st["depth"], "ok": ok, "secs": round(secs, 1), "out": outp}
    if not ok:
        res["error"] = tlc_error_detail(outp) or ("TLC exit code %d" % rc)
        if not any(x in res["error"] for x in ("violated", "Assert", "evaluated to FALSE", "is equal to FALSE")):
            raise ToolError("TLC failed on %s %s:\n%s" % (module, constants, res["error"] or open(outp).read()[-3000:]))
    log("[E1] %s %s: %d distinct states, %d transitions, depth %d, %s (%.1fs)" % (
        module, json.dumps(constants), res["states"], res["transitions"], res["depth"], "ok" if ok else "SPEC-LEVEL COUNTEREXAMPLE", secs))
    return res


def generate(module, constants, work, out_name, workers=1, timeout=3600, spec="Spec", extra_cfg="", simulate=None, seed=None, constraint=None):
    """E2 generator: TLC with EMIT = TRUE prints one JSON line per transition."""
    cfg = "CONSTANTS\n" + "".join(" %s = %s\n" % kv for kv in constants.items())
    cfg += "SPECIFICATION %s\nCHECK_DEADLOCK FALSE\n" % spec + extra_cfg
    if constraint:
        cfg += "CONSTRAINT %s\n" % constraint
    extra = []
    if simulate:
        extra = ["-simulate", "num=%d" % simulate[0], "-depth", str(simulate[1])]
        if seed is not None:
            extra += ["-seed", str(seed)]
    outp, rc, secs = tlc(module, cfg, work, workers=workers, timeout=timeout, out_name=out_name, extra=extra, xmx="6g")
    st = tlc_stats(outp)
    if rc == -9:
        raise ToolError("TLC timeout generating %s %s" % (module, constants))
    if rc != 0 and not simulate:
        raise ToolError("TLC generation failed on %s %s:\n%s" % (module, constants, tlc_error_detail(outp) or open(outp, errors='replace').read()[-2000:]))
    log("[E2] generated behaviours of %s %s: %d states (%.1fs)" % (module, json.dumps(constants), st["distinct"], secs))
    return outp, st


class Stats(dict):
    """STATS of one harness run; a run ended by the watchdog prints none, missing counters read as 0."""
    def __missing__(self, key):
        return 0


HANGS = []      # every harness run ended by the watchdog in this check: {"args", "work", "hang", "handled"}


def vh(args, work, timeout=3600):
    build_harness()
    hang = os.path.join(work, "hang.ndjson")
    if os.path.exists(hang):
        os.remove(hang)
    p = sh([VH] + args + ["--hang", hang], cwd=work, check=False, timeout=timeout)
    stats = Stats()
    for line in p.stdout.splitlines():
        if line.startswith("STATS "):
            stats = json.loads(line[6:])
    if p.returncode != 0:
        raise ToolError("harness failed: vh %s\n%s" % (" ".join(args), p.stdout[-4000:]))
    if os.path.exists(hang) and os.path.getsize(hang) > 0:
        stats["hang"] = [json.loads(l) for l in open(hang)]
        for h in stats["hang"]:
            if h.get("kind") == "probe_failed":
                log("PROBE-FAILED (vh %s): %s - the mechanism spec's hashing model does not describe this code; this replay is skipped (drift, not a verdict)"
                    % (" ".join(args[:2]), h.get("msg")))
                stats["probe_failed"] = True
                HANGS.append({"args": list(args), "work": work, "hang": h, "handled": True, "probe": True})
                continue
            log("%s (vh %s): %s" % ("PANIC while the harness observed the object" if h.get("kind") == "panic_in_observation" else "HANG: the code under test did not return",
                                    " ".join(args[:2]), json.dumps(h)[:400]))
            HANGS.append({"args": list(args), "work": work, "hang": h, "handled": False})
    return stats


def split_records(path, work, chunks, prefix):
    """Split an ndjson record file into `chunks` files.  Header lines ("k":"hdr") may occur
    anywhere (one per scenario); every chunk starts with the header in force at its first record.
    Returns ([(file, number_of_lines)], number_of_non_header_records)."""
    if not os.path.exists(path):
        return [], 0          # the harness run was ended before it wrote anything (probe failure / hang)
    with open(path) as f:
        lines = f.readlines()
    nrec = sum(1 for l in lines if '"k":"hdr"' not in l)
    if nrec == 0:
        return [], 0
    chunks = max(1, min(chunks, (len(lines) + 1999) // 2000))
    per = (len(lines) + chunks - 1) // chunks
    files = []
    cur_hdr = None
    for c in range(chunks):
        part = lines[c * per:(c + 1) * per]
        if not part:
            continue
        fn = os.path.join(work, "%s_%d.ndjson" % (prefix, c))
        n = 0
        with open(fn, "w") as f:
            if '"k":"hdr"' not in part[0]:
                f.write(cur_hdr)
                n += 1
            f.writelines(part)
            n += len(part)
        for l in part:
            if '"k":"hdr"' in l:
                cur_hdr = l
        files.append((fn, n))
    return files, nrec


PCFG = "SPECIFICATION Spec\nPOSTCONDITION Done\nCHECK_DEADLOCK FALSE\n"


def adjudicate(pspec, records, work, parallel=8, constants=None, timeout=3600):
    """Judge every P-record with the TLA+ P-spec under TLC.  Returns (checked, rejects)
    where rejects = [(tid, clause)]."""
    files, total = split_records(records, work, parallel, "prec_" + os.path.basename(records).replace(".ndjson", ""))
    if total == 0:
        return 0, []
    cfg = ""
    if constants:
        cfg = "CONSTANTS\n" + "".join(" %s = %s\n" % kv for kv in constants.items())
    cfg += PCFG
    rejects = []
    def one(fc):
        fn, cnt = fc
        outp, rc, secs = tlc(pspec, cfg, work, env={"TRACE": fn}, workers=1, timeout=timeout, xmx="3g", dfs=True)
        txt = open(outp, errors="replace").read()
        m = re.search(r'<<"CHECKED", (\d+), (\d+)>>', txt)
        if rc != 0 or not m or int(m.group(1)) != cnt:
            raise ToolError("P-spec %s did not consume all records of %s (rc=%d, %s)\n%s" % (pspec, fn, rc, m.group(0) if m else None, txt[-3000:]))
        r = []
        for mm in re.finditer(r'<<\s*"REJECT",\s*(\d+),\s*"([^"]*)"\s*>>', txt):
            r.append((int(mm.group(1)), mm.group(2)))
        os.remove(fn)
        return cnt, r

    t = time.time()
    with ThreadPoolExecutor(max_workers=parallel) as ex:
        for cnt, r in ex.map(one, files):
            rejects += r
    log("[P] %s judged %d P-records from %s: %d rejected clauses (%.1fs)" % (pspec, total, os.path.basename(records), len(rejects), time.time() - t))
    return total, rejects


def mvalidate(tspec, constants, mfile, work, parallel=8, timeout=3600, quiet=False):
    """M-level trace validation (code -> spec): count records the mechanism spec does not reproduce."""
    files, total = split_records(mfile, work, parallel, "mrec_" + os.path.basename(mfile).replace(".ndjson", ""))
    if total == 0:
        return 0, []
    cfg = ("CONSTANTS\n" + "".join(" %s = %s\n" % kv for kv in constants.items()) if constants else "") + PCFG

    def one(fc):
        fn, cnt = fc
        outp, rc, secs = tlc(tspec, cfg, work, env={"TRACE": fn}, workers=1, timeout=timeout, xmx="3g", dfs=True)
        txt = open(outp, errors="replace").read()
        m = re.search(r'<<"CHECKED", (\d+), (\d+)>>', txt)
        found = [int(x) for x in re.findall(r'<<"MDRIFT", (\d+)>>', txt)]
        if rc != 0 or not m or int(m.group(1)) != cnt:
            # the mechanism spec could not even evaluate a record (e.g. a position outside the table): everything it did
            # not get to counts as not reproduced - M-level conformance is never a verdict and never a tool failure
            done = int(m.group(1)) if m else 0
            log("[E3/M] %s stopped after %d of %d records of %s (rc=%d): the rest counts as drift; TLC said: %s"
                % (tspec, done, cnt, os.path.basename(fn), rc, " ".join(txt[-400:].split())[-300:]))
            return cnt, found + [-1] * max(1, cnt - done - len(found))
        os.remove(fn)
        return cnt, found

    t = time.time()
    n, drift = total, []
    with ThreadPoolExecutor(max_workers=parallel) as ex:
        for cnt, d in ex.map(one, files):
            drift += d
    if not quiet:
        log("[E3/M] %s validated %d recorded calls against the mechanism spec: %d not reproduced (%.1fs)" % (tspec, n, len(drift), time.time() - t))
    return n, drift


def mvalidate_grouped(tspec, mfile, work, key, consts_of, limit_groups=64):
    """M-level validation of scenario traces whose configuration (hence the TLC constants) changes per
    scenario: records are grouped by key(header cfg); one TLC run per group.  key() returning None skips."""
    groups = {}
    cur = None
    with open(mfile) as f:
        for line in f:
            if '"k":"hdr"' in line:
                h = json.loads(line)
                cur = key(h.get("cfg", {}))
                if cur is not None and cur not in groups and len(groups) >= limit_groups:
                    cur = None
                if cur is not None and cur not in groups:
                    groups[cur] = [line]
                continue
            if cur is not None:
                groups[cur].append(line)
    total, drift = 0, []

    def one(item):
        k, lines = item
        if len(lines) < 2:
            return 0, []
        fn = os.path.join(work, "mgrp_%s.ndjson" % "_".join(str(x) for x in k))
        with open(fn, "w") as g:
            g.writelines(lines)
        n, d = mvalidate(tspec, consts_of(k), fn, work, parallel=1, quiet=True)
        os.remove(fn)
        return n, d

    with ThreadPoolExecutor(max_workers=8) as ex:
        for n, d in ex.map(one, list(groups.items())):
            total += n
            drift += d
    log("[E3/M] %s validated %d recorded scenario calls in %d configurations against the mechanism spec: %d not reproduced" % (tspec, total, len(groups), len(drift)))
    return total, drift, len(groups)


# ------------------------------------------------------------------------------------------
def clause_props(clause):
    head = clause.split(".", 1)[0]
    return [p for p in head.split("+") if p]


def load_records(path, tids):
    want = set(tids)
    got = {}
    hdr = None
    with open(path) as f:
        for i, line in enumerate(f):
            if '"k":"hdr"' in line:
                hdr = json.loads(line)
                continue
            # cheap pre-filter
            m = re.search(r'"tid":(\d+)', line)
            if m and int(m.group(1)) in want:
                got[int(m.group(1))] = json.loads(line)
                if len(got) == len(want):
                    break
    return hdr, got


def load_hist(path):
    h = {}
    if path and os.path.exists(path):
        for line in open(path):
            r = json.loads(line)
            h[r["hid"]] = r
    return h


def path_ops(hist, hid):
    ops = []
    cfg = None
    while True:
        r = hist[hid]
        if "init" in r:
            cfg = r["init"]
            break
        ops.append(r)
        hid = r["parent"]
    ops.reverse()
    return cfg, ops


def scenario_from_hist(hist, rec):
    """Self-contained scenario reproducing a graph-replay record from a fresh object."""
    names = {}
    steps = []

    def build(hid, name):
        cfg, ops = path_ops(hist, hid)
        for r in ops:
            st = {"obj": name, "op": r["op"]}
            steps.append(st)
        return cfg

    cfg = build(rec["hid"], "a")
    final = {"obj": "a", "op": rec["op"]}
    if "other" in rec:
        build(rec["other"], "b")
        final["other"] = "b"
    steps.append(final)
    return {"cfg": cfg, "steps": steps}


def write_evidence(pid, tier, seed, level, coverage, wall, violations, assumptions):
    os.makedirs(os.path.join(ROOT, "evidence"), exist_ok=True)
    ev = {"property_id": pid, "tier": tier, "seed": seed, "level": level, "coverage": coverage,
          "assumptions": assumptions, "wall_s": round(wall, 1), "violations": violations}
    with open(os.path.join(ROOT, "evidence", pid + ".json"), "w") as f:
        json.dump(ev, f, indent=1)


def load_known():
    p = os.path.join(ROOT, "known_findings.json")
    if os.path.exists(p):
        return json.load(open(p))
    return {"findings": []}
