#!/bin/bash
# confirm_seed.sh <dir with patch.diff and demo .rs> : confirms in a scratch worktree that the change
# compiles, keeps the 213 unit tests green, and that the demonstration fails with it and passes without it.
d="$1"
wt=/tmp/seedconf_$$
git -C /repo worktree add -q --detach $wt HEAD || exit 2
trap "git -C /repo worktree remove --force $wt >/dev/null 2>&1; rm -rf $wt" EXIT
cd $wt
mkdir -p tests
demo=$(ls $d/*.rs | head -1)
name=$(basename $demo .rs)
cp $demo tests/
git apply $d/patch.diff || { echo "RESULT apply-failed"; exit 1; }
lib=$(cargo test --offline --lib 2>&1 | grep "test result" | head -1)
with=$(cargo test --offline --test $name 2>&1 | grep -E "^test result" | head -1)
git checkout -- src
without=$(cargo test --offline --test $name 2>&1 | grep -E "^test result" | head -1)
echo "RESULT lib: $lib"
echo "RESULT with-change: $with"
echo "RESULT without-change: $without"
