"""Per-structure pipelines (E1 model check, E2 replay, E3 traces, P adjudication) and the
property registry."""
import json, math, os, re, shutil, time
import vlib
from vlib import log, ToolError


class Ctx:
    def __init__(self, pid, tier, seed, work):
        self.pid, self.tier, self.seed, self.work = pid, tier, seed, work
        self.e1 = []            # exhaustive model-checking runs
        self.executed = 0       # calls executed on real objects
        self.e2_transitions = 0  # TLC-emitted transitions replayed in the code
        self.e3_calls = 0       # calls in traces recorded from the code (drivers)
        self.mvalidated = 0     # recorded calls validated against the M-spec by TLC
        self.judged = 0         # P-records judged by TLC
        self.rejects = []
        self.drift = 0
        self.drift_notes = []
        self.tags = {}
        self.tagged = 0
        self.samples = []
        self.notes = []
        self.exhaustive = True
        self.extra = {}
        self.quick = (tier != "thorough")
        self.lite = False       # composite properties (C06, C19) run every structure with reduced shapes in the quick tier

    def sub(self, name):
        d = os.path.join(self.work, name)
        os.makedirs(d, exist_ok=True)
        return d

    def add_tags(self, tags, tagged):
        for k, v in (tags or {}).items():
            self.tags[k] = self.tags.get(k, 0) + v
        self.tagged += tagged or 0


def add_rejects(ctx, rejects, records, tag, pspec, pconsts=None, hist=None, scenarios=None):
    for tid, clause in rejects:
        ctx.rejects.append({"tid": tid, "clause": clause, "records": records, "s": tag, "pspec": pspec,
                            "pconsts": pconsts or {}, "hist": hist, "scenarios": scenarios})


def sample_records(ctx, records, n=2, prefer=None):
    """Keep a few executed cases verbatim for the evidence file."""
    try:
        with open(records) as f:
            f.readline()
            got = 0
            for i, line in enumerate(f):
                if got >= n:
                    break
                if prefer and prefer not in line and i < 20000:
                    continue
                r = json.loads(line)
                for k in list(r.keys()):
                    if isinstance(r[k], list) and len(r[k]) > 24:
                        r[k] = r[k][:24] + ["..."]
                ctx.samples.append(r)
                got += 1
    except Exception:
        pass


# ------------------------------------------------------------------------------------------
def build_replay(ctx, rj, idx):
    if rj.get("kind") == "hang":
        d = ctx.sub("replay")
        path = os.path.join(d, "%s_%d.json" % (ctx.pid, idx))
        files = {}
        args = list(rj["vh_args"])
        for i, a in enumerate(args):
            if a in ("--in", "--gen") and i + 1 < len(args) and os.path.exists(args[i + 1]):
                keep = os.path.join(d, "%s_%d_input_%s" % (ctx.pid, idx, os.path.basename(args[i + 1])))
                shutil.copyfile(args[i + 1], keep)
                args[i + 1] = keep
        with open(path, "w") as f:
            json.dump({"property": ctx.pid, "clause": rj["clause"], "kind": "hang", "vh_args": args, "hang": rj.get("hang"), "files": files}, f, indent=1)
        return path
    hdr, recs = vlib.load_records(rj["records"], [rj["tid"]])
    rec = recs.get(rj["tid"])
    sc = None
    if rec is not None:
        if rj.get("hist"):
            hist = vlib.load_hist(rj["hist"])
            sc = vlib.scenario_from_hist(hist, rec)
        elif rj.get("scenarios") and "sc" in rec:
            for i, line in enumerate(open(rj["scenarios"])):
                if i == rec["sc"]:
                    sc = json.loads(line)
                    sc["steps"] = sc["steps"][:rec["step"] + 1]
                    break
        elif rj.get("scenario_inline"):
            sc = rj["scenario_inline"]
    d = ctx.sub("replay")
    path = os.path.join(d, "%s_%d.json" % (ctx.pid, idx))
    with open(path, "w") as f:
        json.dump({"property": ctx.pid, "clause": rj["clause"], "structure": rj["s"], "pspec": rj["pspec"],
                   "pconsts": rj["pconsts"], "scenario": sc, "record": rec, "kind": rj.get("kind", "scenario"),
                   "extra": rj.get("extra")}, f, indent=1)
    return path


def run_replay(ctx, path):
    rp = json.load(open(path))
    kind = rp.get("kind", "scenario")
    rp["_path"] = path
    if kind != "scenario" or rp.get("scenario") is None:
        fn = SPECIAL_REPLAY.get(kind)
        if fn is None:
            log("replay file carries no scenario; re-running the check instead")
            PROPS[ctx.pid]["run"](ctx)
            return finish(ctx, 0.0, write=False)
        return fn(ctx, rp)
    w = ctx.sub("replay_run")
    scf = os.path.join(w, "scenario.ndjson")
    with open(scf, "w") as f:
        f.write(json.dumps(rp["scenario"]) + "\n")
    out = os.path.join(w, "p.ndjson")
    vlib.vh(["scenario", rp["structure"], "--in", scf, "--out", out], w)
    n, rej = vlib.adjudicate(rp["pspec"], out, w, parallel=1, constants=rp.get("pconsts") or None)
    mine = [(t, c) for t, c in rej if ctx.pid in vlib.clause_props(c)]
    for t, c in rej:
        log("replay: record %d rejected by %s: %s" % (t, rp["pspec"], c))
    if mine:
        print("VIOLATION property=%s replay=%s" % (ctx.pid, path), flush=True)
        return 1
    log("replay: property %s held on the replayed scenario (%d calls judged)" % (ctx.pid, n))
    return 0


SPECIAL_REPLAY = {}


def hang_clause(pid, h):
    if h.get("kind") == "panic_in_observation":
        return pid + ".total: the code under test panicked while the harness was probing / observing the object"
    return PROPS[pid].get("hang_clause", pid + ".total: a call did not return (hang)")


def hang_replay(ctx, rp):
    """Re-run the harness command that was ended by the watchdog."""
    w = ctx.sub("replay_run")
    args = list(rp["vh_args"])
    for i, a in enumerate(args):
        if a in ("--out", "--mout", "--hist") and i + 1 < len(args):
            args[i + 1] = os.path.join(w, os.path.basename(args[i + 1]))
    stats = vlib.vh(args, w)
    if stats.get("hang"):
        print("VIOLATION property=%s replay=%s" % (ctx.pid, rp["_path"]), flush=True)
        return 1
    log("replay: the harness command returned normally this time")
    return 0


SPECIAL_REPLAY["hang"] = hang_replay


def finish(ctx, wall, write=True):
    pid = ctx.pid
    for h in vlib.HANGS:
        if h.get("probe") and not h.get("counted"):
            h["counted"] = True
            ctx.drift += 1
            ctx.drift_notes.append({"probe_failed": h["hang"].get("msg"), "vh": " ".join(h["args"][:2])})
        if not h["handled"]:
            h["handled"] = True
            ctx.rejects.append({"tid": h["hang"].get("tid", 0), "kind": "hang", "vh_args": h["args"], "hang": h["hang"], "sig": "hang",
                                "clause": hang_clause(pid, h["hang"]),
                                "records": "hang.ndjson", "s": h["hang"].get("s", ""), "pspec": "", "pconsts": {}})
    tool = [r for r in ctx.rejects if r["clause"].startswith("TOOL.")]
    if tool:
        raise ToolError("harness bookkeeping rejected by the P-spec (tool bug, not a verdict): %s" % tool[:3])
    mine = [r for r in ctx.rejects if pid in vlib.clause_props(r["clause"])]
    others = [r for r in ctx.rejects if pid not in vlib.clause_props(r["clause"])]
    known = [k for k in vlib.load_known().get("findings", []) if k.get("property") == pid and k.get("status") == "open"]
    seen_known = {}
    viol = []
    for r in mine:
        hit = None
        for k in known:
            if re.search(k["match"]["clause"], r["clause"]) and (not k["match"].get("sig") or re.search(k["match"]["sig"], r.get("sig", ""))):
                hit = k
                break
        if hit:
            seen_known.setdefault(hit["id"], [hit, 0])[1] += 1
        else:
            viol.append(r)
    for kid, (k, n) in seen_known.items():
        print("KNOWN-FINDING: property=%s %s (%d occurrences this run)" % (pid, k["what"], n), flush=True)
    if ctx.drift:
        print("DRIFT: %d executed calls left the real structure in a state the mechanism spec does not predict "
              "(not an alarm; M-level coverage claims do not transfer for them)" % ctx.drift, flush=True)
        for d in ctx.drift_notes[:3]:
            log("  drift example: %s" % json.dumps(d)[:600])
    if others:
        cl = sorted(set(r["clause"] for r in others))
        log("note: %d rejected clauses belong to other properties (reported by their own checks): %s" % (len(others), cl[:6]))
    e1_bad = [e for e in ctx.e1 if not e["ok"]]
    rc = 0
    replays = []
    if viol:
        seen = set()
        for r in viol:
            if r["clause"] in seen or len(seen) >= 5:
                continue
            seen.add(r["clause"])
            path = build_replay(ctx, r, len(seen))
            replays.append(path)
            log("violated clause: %s (record tid=%s of %s)" % (r["clause"], r["tid"], os.path.basename(r["records"])))
            print("VIOLATION property=%s replay=%s" % (pid, path), flush=True)
        rc = 1
    elif e1_bad:
        for e in e1_bad:
            log("E1 counterexample on %s %s:\n%s" % (e["module"], e["constants"], e.get("error", "")[:3000]))
        raise ToolError("the mechanism spec violates the property in TLC but every call executed on the real code was "
                        "accepted by the P-spec: the spec misdescribes the code (fix the spec); not a verdict about the code")
    if write:
        level = PROPS[pid]["level"]
        cov = {
            "states": sum(e["states"] for e in ctx.e1),
            "transitions": sum(e["transitions"] for e in ctx.e1),
            "traces_validated_against_impl": ctx.e2_transitions + ctx.e3_calls,
            "evaluations": ctx.judged,
            "distinct_nontrivial": ctx.tagged,
            "rule": PROPS[pid].get("rule", ""),
            "samples": ctx.samples[:6] or [{"note": "no sample recorded"}],
            "exhaustive": bool(ctx.exhaustive and ctx.e1),
            "model_checking_runs": [{k: e[k] for k in ("module", "constants", "invariants", "states", "transitions", "depth", "ok", "secs")} for e in ctx.e1],
            "e2_transitions_replayed_in_code": ctx.e2_transitions,
            "e3_recorded_calls": ctx.e3_calls,
            "calls_executed_on_real_objects": ctx.executed,
            "recorded_calls_validated_against_mechanism_spec": ctx.mvalidated,
            "p_records_judged_by_tlc": ctx.judged,
            "coverage_tags": ctx.tags,
            "drift": ctx.drift,
            "known_findings_seen": sorted(seen_known.keys()),
            "notes": ctx.notes,
        }
        cov.update(ctx.extra)
        vlib.write_evidence(pid, ctx.tier, ctx.seed, level, cov, wall, len(viol), PROPS[pid].get("assumptions", []))
    log("[%s] tier=%s seed=%d: E1 states=%d, calls executed=%d, P-records judged=%d, violations=%d, drift=%d (%.0fs)" % (
        pid, ctx.tier, ctx.seed, sum(e["states"] for e in ctx.e1), ctx.executed, ctx.judged, len(viol), ctx.drift, wall))
    return rc


# ------------------------------------------------------------------------------------------
def std_e2(ctx, module, consts, tag, pspec, wname, tspec=None, tconsts=None, pairs=0, pair_op=None, reps=1, max_alt=50,
           label=None, sample=None, pconsts=None, gen_workers=1, constraint=None, cfg_extra=None):
    """Generic E2: generate every transition of `module` with TLC, replay in the code, judge, M-validate pairs."""
    w = ctx.sub(wname)
    gen, st = vlib.generate(module, consts, w, "gen.out", workers=gen_workers, constraint=constraint)
    pf, h, mm = [os.path.join(w, x) for x in ("p.ndjson", "hist.ndjson", "m.ndjson")]
    args = ["replay", tag, "--gen", gen, "--out", pf, "--hist", h, "--reps", str(reps), "--max-alt", str(max_alt), "--seed", str(ctx.seed)]
    if pairs and pair_op:
        args += ["--mout", mm, "--pairs", str(pairs), "--pair-op", pair_op]
    if cfg_extra:
        args += ["--cfg-extra", json.dumps(cfg_extra)]
    stats = vlib.vh(args, w)
    os.remove(gen)
    if stats.get("missing") and not stats.get("panics"):
        raise ToolError("replay could not reach %d emitted transitions" % stats["missing"])
    ctx.e2_transitions += stats["transitions"] + stats["pairs"]
    ctx.executed += stats["executed"] + stats["alt_executed"] + stats["pairs"]
    ctx.drift += stats["drift"]
    ctx.drift_notes += stats.get("first_drift", [])
    ctx.add_tags(stats.get("tags"), stats.get("tagged_distinct"))
    g = {"spec_states": st["distinct"], "materialised_as_real_objects": stats["states"], "second_representatives": stats["alt_states"], "pairs": stats["pairs"]}
    g.update(label or {})
    ctx.extra.setdefault("state_graphs", []).append(g)
    handle_hang(ctx, stats, pf, tag, pspec, hist=h)
    n, rej = vlib.adjudicate(pspec, pf, w, constants=pconsts)
    ctx.judged += n
    add_rejects(ctx, rej, pf, tag, pspec, hist=h, pconsts=pconsts)
    sample_records(ctx, pf, 1, sample)
    if stats["pairs"] and tspec:
        nm, drift = vlib.mvalidate(tspec, tconsts, mm, w)
        ctx.mvalidated += nm
        ctx.drift += len(drift)
        if drift:
            ctx.drift_notes.append({"pairs_not_reproduced_by_spec": drift[:5]})
    return stats


def std_e3(ctx, tag, pspec, wname, drive_tag=None, drive_args=(), sample=None, pconsts=None, tspec=None, tconsts=None, tgroup=None, tlabel=None):
    """Generic E3: the harness' driver writes scenarios, the scenario runner executes them, TLC judges."""
    w = ctx.sub(wname)
    scf = os.path.join(w, "scenarios.ndjson")
    vlib.vh(["drive", drive_tag or tag, "--out", scf, "--seed", str(ctx.seed)] + list(drive_args), w)
    p = os.path.join(w, "p.ndjson")
    m = os.path.join(w, "m.ndjson")
    args = ["scenario", tag, "--in", scf, "--out", p]
    if tspec:
        args += ["--mout", m]
    stats = vlib.vh(args, w)
    ctx.e3_calls += stats["calls"]
    ctx.executed += stats["calls"]
    handle_hang(ctx, stats, p, tag, pspec)
    n, rej = vlib.adjudicate(pspec, p, w, constants=pconsts)
    ctx.judged += n
    add_rejects(ctx, rej, p, tag, pspec, scenarios=scf, pconsts=pconsts)
    sample_records(ctx, p, 1, sample)
    if tspec and tgroup:
        # configurations (hence TLC constants) change per scenario: one TLC run per group of scenarios
        nm, drift, ng = vlib.mvalidate_grouped(tspec, m, w, tgroup[0], tgroup[1])
        ctx.mvalidated += nm
        ctx.drift += len(drift)
        if drift:
            ctx.drift_notes.append({"%s_scenario_calls_not_reproduced_by_spec" % tag: drift[:5]})
        ctx.extra.setdefault("m_level_trace_validation", []).append({"structure": tlabel or tag, "configurations": ng, "calls": nm, "not_reproduced": len(drift)})
    elif tspec:
        nm, drift = vlib.mvalidate(tspec, tconsts, m, w)
        ctx.mvalidated += nm
        ctx.drift += len(drift)
    return stats


# Quotient filter
def qf_e1(ctx, shapes, union_shapes=(), alg_shapes=()):
    for (q, r) in shapes:
        ctx.e1.append(vlib.model_check("MC_Quotient", {"Q": q, "R": r, "EMIT": "FALSE"}, ["ExactSet", "WF"], ctx.sub("e1")))
    for (q, r) in union_shapes:
        ctx.e1.append(vlib.model_check("MC_Quotient2", {"Q": q, "R": r}, ["ExactSet", "WF"], ctx.sub("e1")))
    for (q, r) in alg_shapes:
        ctx.e1.append(vlib.model_check("MC_QuotientAlg", {"Q": q, "R": r}, ["Comm", "Idem", "Twice", "Assoc"], ctx.sub("e1")))


def qf_e2(ctx, shapes, pairs, reps=2, max_alt=600, gen_workers=1):
    for (q, r) in shapes:
        w = ctx.sub("qf_%d_%d" % (q, r))
        gen, st = vlib.generate("MC_Quotient", {"Q": q, "R": r, "EMIT": "TRUE"}, w, "gen.out", workers=gen_workers)
        p, h, m = [os.path.join(w, x) for x in ("p.ndjson", "hist.ndjson", "m.ndjson")]
        stats = vlib.vh(["replay", "qf", "--gen", gen, "--out", p, "--hist", h, "--mout", m, "--reps", str(reps),
                         "--max-alt", str(max_alt), "--pairs", str(pairs), "--pair-op", "union", "--seed", str(ctx.seed)], w)
        os.remove(gen)
        if stats.get("missing") and not stats.get("panics"):
            raise ToolError("replay could not reach %d emitted transitions (pre-state never materialised)" % stats["missing"])
        ctx.e2_transitions += stats["transitions"] + stats["pairs"]
        ctx.executed += stats["executed"] + stats["alt_executed"] + stats["pairs"]
        ctx.drift += stats["drift"]
        ctx.drift_notes += stats.get("first_drift", [])
        ctx.add_tags(stats.get("tags"), stats.get("tagged_distinct"))
        ctx.extra.setdefault("state_graphs", []).append({"structure": "QuotientFilter", "q": q, "r": r, "spec_states": st["distinct"],
                                                         "materialised_as_real_objects": stats["states"], "second_representatives": stats["alt_states"],
                                                         "union_pairs": stats["pairs"]})
        handle_hang(ctx, stats, p, "qf", "P_Quotient", hist=h)
        n, rej = vlib.adjudicate("P_Quotient", p, w)
        ctx.judged += n
        add_rejects(ctx, rej, p, "qf", "P_Quotient", hist=h)
        sample_records(ctx, p, 1, '"swapchain"')
        if stats["pairs"]:
            nm, drift = vlib.mvalidate("Trace_Quotient", {"Q": q, "R": r}, m, w)
            ctx.mvalidated += nm
            ctx.drift += len(drift)
            if drift:
                ctx.drift_notes.append({"union_pairs_not_reproduced_by_spec": drift[:5]})


def qf_e3(ctx, scenarios, max_q, mlevel_max_q=6):
    w = ctx.sub("qf_e3")
    scf = os.path.join(w, "scenarios.ndjson")
    vlib.vh(["drive", "qf", "--out", scf, "--seed", str(ctx.seed), "--scenarios", str(scenarios), "--max-q", str(max_q)], w)
    p, m = os.path.join(w, "p.ndjson"), os.path.join(w, "m.ndjson")
    stats = vlib.vh(["scenario", "qf", "--in", scf, "--out", p, "--mout", m], w)
    ctx.e3_calls += stats["calls"]
    ctx.executed += stats["calls"]
    n, rej = vlib.adjudicate("P_Quotient", p, w)
    ctx.judged += n
    add_rejects(ctx, rej, p, "qf", "P_Quotient", scenarios=scf)
    sample_records(ctx, p, 1)
    # M-level trace validation of the recorded scenarios (code -> spec) for tables up to 2^mlevel_max_q slots
    nm, drift, ng = vlib.mvalidate_grouped("Trace_Quotient", m, w, lambda c: (c["q"], c["r"]) if c.get("q", 99) <= mlevel_max_q and c.get("r", 99) <= 20 else None,
                                           lambda k: {"Q": k[0], "R": k[1]})
    ctx.mvalidated += nm
    ctx.drift += len(drift)
    if drift:
        ctx.drift_notes.append({"qf_scenario_calls_not_reproduced_by_spec": drift[:5]})
    ctx.extra.setdefault("m_level_trace_validation", []).append({"structure": "QuotientFilter", "configurations": ng, "calls": nm, "not_reproduced": len(drift)})


# Cuckoo filter.  The two constants record whether the code under /repo has the `fix:` commits
# for D2/D3 (DESIGN.md section 2.2); they are read from spec/CuckooAsBuilt.json.
def ck_consts():
    return json.load(open(os.path.join(vlib.SPEC, "CuckooAsBuilt.json")))


def ck_e1(ctx, shapes):
    asb = ck_consts()
    for (b, nb, fpmax, kicks, p, two) in shapes:
        c = {"B": b, "NB": nb, "FPMax": fpmax, "MaxKicks": kicks, "P": p, "EMIT": "FALSE", "TWO": "TRUE" if two else "FALSE", "ALLFULL": "TRUE"}
        c.update(asb)
        ctx.e1.append(vlib.model_check("MC_Cuckoo", c, ["ExactBag", "LenOK", "NoFalseNeg"], ctx.sub("e1")))


def ck_e2(ctx, shapes, pairs, reps=2, max_alt=400):
    asb = ck_consts()
    for (b, nb, fpmax, p, allfull) in shapes:
        w = ctx.sub("ck_%d_%d_%d" % (b, nb, fpmax))
        c = {"B": b, "NB": nb, "FPMax": fpmax, "MaxKicks": 500, "P": p, "EMIT": "TRUE", "TWO": "FALSE", "ALLFULL": "TRUE" if allfull else "FALSE"}
        c.update(asb)
        gen, st = vlib.generate("MC_Cuckoo", c, w, "gen.out")
        pf, h, m = [os.path.join(w, x) for x in ("p.ndjson", "hist.ndjson", "m.ndjson")]
        stats = vlib.vh(["replay", "ck", "--gen", gen, "--out", pf, "--hist", h, "--mout", m, "--reps", str(reps),
                         "--max-alt", str(max_alt), "--pairs", str(pairs), "--pair-op", "union", "--seed", str(ctx.seed)], w)
        os.remove(gen)
        if stats.get("missing") and not stats.get("panics"):
            raise ToolError("replay could not reach %d emitted transitions" % stats["missing"])
        ctx.e2_transitions += stats["transitions"] + stats["pairs"]
        ctx.executed += stats["executed"] + stats["alt_executed"] + stats["pairs"]
        ctx.drift += stats["drift"]
        ctx.drift_notes += stats.get("first_drift", [])
        ctx.add_tags(stats.get("tags"), stats.get("tagged_distinct"))
        ctx.extra.setdefault("state_graphs", []).append({"structure": "CuckooFilter", "bucketsize": b, "n_buckets": nb, "fingerprints": fpmax,
                                                         "spec_states": st["distinct"], "materialised_as_real_objects": stats["states"],
                                                         "second_representatives": stats["alt_states"], "union_pairs": stats["pairs"]})
        handle_hang(ctx, stats, pf, "ck", "P_Cuckoo", hist=h)
        n, rej = vlib.adjudicate("P_Cuckoo", pf, w)
        ctx.judged += n
        add_rejects(ctx, rej, pf, "ck", "P_Cuckoo", hist=h)
        sample_records(ctx, pf, 1, '"full"')
        if stats["pairs"]:
            mc = {"B": b, "NB": nb, "FPMax": fpmax, "MaxKicks": 500}
            mc.update(asb)
            nm, drift = vlib.mvalidate("Trace_Cuckoo", mc, m, w)
            ctx.mvalidated += nm
            ctx.drift += len(drift)
            if drift:
                ctx.drift_notes.append({"union_pairs_not_reproduced_by_spec": drift[:5]})


def ck_e3(ctx, scenarios, max_nb_log=4):
    w = ctx.sub("ck_e3")
    scf = os.path.join(w, "scenarios.ndjson")
    vlib.vh(["drive", "ck", "--out", scf, "--seed", str(ctx.seed), "--scenarios", str(scenarios), "--max-nb-log", str(max_nb_log)], w)
    p = os.path.join(w, "p.ndjson")
    m = os.path.join(w, "m.ndjson")
    stats = vlib.vh(["scenario", "ck", "--in", scf, "--out", p, "--mout", m], w)
    ctx.e3_calls += stats["calls"]
    ctx.executed += stats["calls"]
    handle_hang(ctx, stats, p, "ck", "P_Cuckoo")
    n, rej = vlib.adjudicate("P_Cuckoo", p, w)
    ctx.judged += n
    add_rejects(ctx, rej, p, "ck", "P_Cuckoo", scenarios=scf)
    sample_records(ctx, p, 1, '"union"')
    # M-level trace validation of the scenarios (code -> spec, MaxKicks = 500, scripted victims) for tables of <= 64 slots
    # whose fingerprints fit TLC's integers
    asb = ck_consts()

    def key(c):
        return (c["b"], c["nb"]) if c.get("l", 99) <= 30 and c.get("b", 99) * c.get("nb", 99) <= 64 else None

    def consts(k):
        d = {"B": k[0], "NB": k[1], "FPMax": 1, "MaxKicks": 500}
        d.update(asb)
        return d

    nm, drift, ng = vlib.mvalidate_grouped("Trace_Cuckoo", m, w, key, consts)
    ctx.mvalidated += nm
    ctx.drift += len(drift)
    if drift:
        ctx.drift_notes.append({"cuckoo_scenario_calls_not_reproduced_by_spec": drift[:5]})
    ctx.extra.setdefault("m_level_trace_validation", []).append({"structure": "CuckooFilter", "configurations": ng, "calls": nm, "not_reproduced": len(drift)})


def run_ck(ctx):
    if ctx.quick and ctx.lite:
        ck_e1(ctx, [(2, 2, 2, 2, 2, True)])
        ck_e2(ctx, [(2, 2, 2, 1, False)], pairs=4000)
        ck_e3(ctx, 40)
    elif ctx.quick:
        ck_e1(ctx, [(2, 2, 2, 2, 2, True)])
        ck_e2(ctx, [(2, 2, 2, 2, False)], pairs=4000)
        ck_e3(ctx, 60)
    else:
        # measured: (2,2,3,2,2,two) 346 112 states / 29 M transitions in 4 min; (2,4,2,2,2,one) 104 976 states in 1 min
        ck_e1(ctx, [(2, 2, 2, 2, 2, True), (2, 2, 3, 2, 2, True), (2, 2, 3, 3, 3, False), (2, 4, 2, 2, 2, False), (3, 2, 2, 2, 2, False), (4, 2, 2, 1, 1, False)])
        ck_e2(ctx, [(2, 2, 2, 2, True), (2, 2, 3, 2, False), (3, 2, 2, 1, False)], pairs=40000)
        ck_e3(ctx, 1500, 6)


# Bloom filter and the HashSet reference implementation of Filter
def bl_e1(ctx, shapes):
    for (m, k, elems) in shapes:
        c = {"M": m, "Kh": k, "Elems": "{" + ",".join("e%d" % i for i in range(elems)) + "}"}
        ctx.e1.append(vlib.model_check("MC_Bloom", c, ["NoFalseNeg", "ReplayEq", "EmptyIff"], ctx.sub("e1")))


def bl_e2(ctx, shapes, n_fs, pairs, reps=2):
    for (m, k) in shapes:
        w = ctx.sub("bl_%d_%d" % (m, k))
        fss = vlib.vh(["learn", "bl", "--m", str(m), "--k", str(k), "--n", str(n_fs), "--seed", str(ctx.seed)], w)["fs"]
        for fi, fs in enumerate(fss):
            c = {"M": m, "Kh": k, "FSCODE": sum((x % m) * (m ** i) for i, x in enumerate(fs)), "EMIT": "TRUE"}
            gen, st = vlib.generate("Gen_Bloom", c, w, "gen%d.out" % fi)
            pf, h, mm = [os.path.join(w, "%s%d.ndjson" % (x, fi)) for x in ("p", "hist", "m")]
            stats = vlib.vh(["replay", "bl", "--gen", gen, "--out", pf, "--hist", h, "--mout", mm, "--reps", str(reps), "--max-alt", "50",
                             "--pairs", str(pairs), "--pair-op", "union", "--seed", str(ctx.seed)], w)
            os.remove(gen)
            if stats.get("missing") and not stats.get("panics"):
                raise ToolError("replay could not reach %d emitted transitions" % stats["missing"])
            ctx.e2_transitions += stats["transitions"] + stats["pairs"]
            ctx.executed += stats["executed"] + stats["alt_executed"] + stats["pairs"]
            ctx.drift += stats["drift"]
            ctx.drift_notes += stats.get("first_drift", [])
            ctx.add_tags(stats.get("tags"), stats.get("tagged_distinct"))
            ctx.extra.setdefault("state_graphs", []).append({"structure": "BloomFilter", "m": m, "k": k, "shift_vector": fs, "spec_states": st["distinct"],
                                                             "materialised_as_real_objects": stats["states"], "union_pairs": stats["pairs"]})
            n, rej = vlib.adjudicate("P_SetFilter", pf, w)
            ctx.judged += n
            add_rejects(ctx, rej, pf, "bl", "P_SetFilter", hist=h)
            if fi == 0:
                sample_records(ctx, pf, 1, '"union"')
            if stats["pairs"]:
                nm, drift = vlib.mvalidate("Trace_Bloom", {"M": m, "Kh": k}, mm, w)
                ctx.mvalidated += nm
                ctx.drift += len(drift)


def setfilter_e3(ctx, tag, scenarios):
    w = ctx.sub(tag + "_e3")
    scf = os.path.join(w, "scenarios.ndjson")
    vlib.vh(["drive", tag, "--out", scf, "--seed", str(ctx.seed), "--scenarios", str(scenarios)], w)
    p, m = os.path.join(w, "p.ndjson"), os.path.join(w, "m.ndjson")
    stats = vlib.vh(["scenario", tag, "--in", scf, "--out", p] + (["--mout", m] if tag == "bl" else []), w)
    ctx.e3_calls += stats["calls"]
    ctx.executed += stats["calls"]
    n, rej = vlib.adjudicate("P_SetFilter", p, w)
    ctx.judged += n
    add_rejects(ctx, rej, p, tag, "P_SetFilter", scenarios=scf)
    sample_records(ctx, p, 1, '"union"')
    if tag == "bl" and not stats.get("hang"):
        # M-level trace validation (code -> spec) of the recorded scenarios of filters up to 256 bits
        nm, drift, ng = vlib.mvalidate_grouped("Trace_Bloom", m, w, lambda c: (c["m"], c["k"]) if c.get("m", 9999) <= 256 else None,
                                               lambda k: {"M": k[0], "Kh": k[1]})
        ctx.mvalidated += nm
        ctx.drift += len(drift)
        if drift:
            ctx.drift_notes.append({"bloom_scenario_calls_not_reproduced_by_spec": drift[:5]})
        ctx.extra.setdefault("m_level_trace_validation", []).append({"structure": "BloomFilter", "configurations": ng, "calls": nm, "not_reproduced": len(drift)})


def run_bl(ctx):
    if ctx.quick:
        bl_e1(ctx, [(1, 1, 2), (3, 2, 2), (2, 3, 3)])
        bl_e2(ctx, [(3, 2), (4, 3), (6, 3)], n_fs=2, pairs=5000)
        setfilter_e3(ctx, "bl", 60)
        setfilter_e3(ctx, "hs", 20)
    else:
        bl_e1(ctx, [(1, 1, 2), (3, 2, 3), (4, 2, 3), (2, 3, 3), (4, 3, 2)])
        bl_e2(ctx, [(2, 1), (3, 2), (4, 2), (4, 3), (5, 3), (6, 3), (7, 4), (8, 2)], n_fs=8, pairs=70000)
        setfilter_e3(ctx, "bl", 1500)
        setfilter_e3(ctx, "hs", 300)


def run_C19(ctx):
    """clear() restores a fresh structure, clone() is independent, is_empty(): all nine structures.
    Every pipeline records, for every executed call, (i) a clone taken before the call answering as before
    afterwards, (ii) after a clear() a freshly constructed object fed with the same calls (lock-step)."""
    ctx.lite = True
    run_bl(ctx)
    run_ck(ctx)
    if ctx.quick:
        qf_e1(ctx, [(2, 1), (2, 2)])
        qf_e2(ctx, [(2, 1), (2, 2)], pairs=1000)
        qf_e3(ctx, 30, 8)
    else:
        run_C13(ctx)
    run_cms(ctx)
    run_hll(ctx)
    run_td(ctx)
    run_rs(ctx, False)
    run_lossy(ctx)
    run_heap(ctx)


def compat(ctx):
    """Operand compatibility of union / merge (Gen_Compat): operands built with BuildHasherSeeded whose seeds differ in the
    low half, the high half or both, or whose configuration differs in one parameter; judged by P_Compat."""
    w = ctx.sub("compat")
    c = {"EMIT": "FALSE"}
    ctx.e1.append(vlib.model_check("Gen_Compat", c, ["Inv"], ctx.sub("e1"), workers=1))
    c["EMIT"] = "TRUE"
    gen, st = vlib.generate("Gen_Compat", c, w, "cases.out")
    p = os.path.join(w, "p.ndjson")
    stats = vlib.vh(["compat", "all", "--gen", gen, "--out", p], w)
    n, rej = vlib.adjudicate("P_Compat", p, w, parallel=1)
    ctx.judged += n
    ctx.executed += stats["cases"]
    ctx.e2_transitions += stats["cases"]
    add_rejects(ctx, [(t, cl) for t, cl in rej if not cl.startswith("X.")], p, "compat", "P_Compat")
    extra = sorted(set(cl for _, cl in rej if cl.startswith("X.")))
    ctx.extra["operand_compatibility"] = {"cases": stats["cases"], "rejected": len(rej), "extra_mismatches": extra}
    for cl in extra:
        log("EXTRA (operand compatibility, not a verdict): %s" % cl)


def run_C06(ctx):
    """merge/union equals processing both streams: Bloom, cuckoo, quotient filter (incl. algebra), CMS, HLL."""
    ctx.lite = True
    compat(ctx)
    run_C06_filters(ctx)
    run_cms(ctx)
    run_hll(ctx)


def run_C01(ctx):
    compat(ctx)
    run_bl(ctx)
    run_ck(ctx)
    run_C13(ctx)


def run_C06_filters(ctx):
    run_bl(ctx)
    run_ck(ctx)
    if ctx.quick:
        qf_e1(ctx, [], union_shapes=[(1, 1), (2, 1)], alg_shapes=[(1, 1), (1, 2)])
        qf_e2(ctx, [(2, 1), (2, 2)], pairs=27000)
        qf_e3(ctx, 40, 8)
    else:
        qf_e1(ctx, [], union_shapes=[(1, 1), (2, 1), (1, 2)], alg_shapes=[(1, 1), (1, 2), (2, 1)])
        qf_e2(ctx, [(2, 1), (1, 2), (2, 2), (3, 1)], pairs=300000)
        qf_e3(ctx, 600, 16)


# Count-min sketch
CMS_TYPES = {"cms8": 255, "cms16": 65535, "cms32": 2147483647, "cms64": 2147483647, "cmsz": 2147483647}


def cms_e1(ctx, shapes):
    for (w, d, elems, cmax, weights, maxops, fixf) in shapes:
        c = {"W": w, "D": d, "Elems": "{" + ",".join("e%d" % i for i in range(elems)) + "}", "CMax": cmax,
             "Weights": "{" + ",".join(str(x) for x in weights) + "}", "MaxOps": maxops, "FIXF": "TRUE" if fixf else "FALSE"}
        ctx.e1.append(vlib.model_check("MC_CMS", c, ["Bounds", "Single", "Linear", "EmptyIff"], ctx.sub("e1")))


def cms_e2(ctx, shapes, n_fs, pairs, types, reps=1):
    for (w, d, maxops) in shapes:
        wd = ctx.sub("cms_%d_%d" % (w, d))
        fss = vlib.vh(["learn", "cms", "--w", str(w), "--d", str(d), "--n", str(n_fs), "--seed", str(ctx.seed)], wd)["fs"]
        for fi, fs in enumerate(fss):
            for tag in types:
                cmax = CMS_TYPES[tag]
                weights = "{1, 2, %d}" % (cmax - 1) if cmax < 100000 else "{1, 2, 1000}"
                c = {"W": w, "D": d, "CMax": cmax, "FSCODE": sum((x % w) * (w ** i) for i, x in enumerate(fs)), "EMIT": "TRUE",
                     "Weights": weights, "MaxOps": maxops}
                gen, st = vlib.generate("Gen_CMS", c, wd, "gen_%s_%d.out" % (tag, fi))
                pf, h, mm = [os.path.join(wd, "%s_%s_%d.ndjson" % (x, tag, fi)) for x in ("p", "hist", "m")]
                stats = vlib.vh(["replay", tag, "--gen", gen, "--out", pf, "--hist", h, "--mout", mm, "--reps", str(reps), "--max-alt", "20",
                                 "--pairs", str(pairs), "--pair-op", "merge", "--seed", str(ctx.seed)], wd)
                os.remove(gen)
                if stats.get("missing") and not stats.get("panics"):
                    raise ToolError("replay could not reach %d emitted transitions" % stats["missing"])
                ctx.e2_transitions += stats["transitions"] + stats["pairs"]
                ctx.executed += stats["executed"] + stats["alt_executed"] + stats["pairs"]
                ctx.drift += stats["drift"]
                ctx.drift_notes += stats.get("first_drift", [])
                ctx.add_tags(stats.get("tags"), stats.get("tagged_distinct"))
                ctx.extra.setdefault("state_graphs", []).append({"structure": "CountMinSketch<%s>" % tag, "w": w, "d": d, "shift_vector": fs,
                                                                 "spec_states": st["distinct"], "materialised_as_real_objects": stats["states"],
                                                                 "merge_pairs": stats["pairs"]})
                n, rej = vlib.adjudicate("P_CMS", pf, wd)
                ctx.judged += n
                add_rejects(ctx, rej, pf, tag, "P_CMS", hist=h)
                if fi == 0 and tag == types[0]:
                    sample_records(ctx, pf, 1, '"overflow"')
                if stats["pairs"]:
                    nm, drift = vlib.mvalidate("Trace_CMS", {"W": w, "D": d, "CMax": cmax}, mm, wd)
                    ctx.mvalidated += nm
                    ctx.drift += len(drift)


def cms_e3(ctx, scenarios, types):
    for tag in types:
        w = ctx.sub(tag + "_e3")
        scf = os.path.join(w, "scenarios.ndjson")
        cmax = CMS_TYPES[tag]
        vlib.vh(["drive", "cms", "--out", scf, "--seed", str(ctx.seed + len(tag)), "--scenarios", str(scenarios), "--cmax", str(cmax if cmax < 100000 else 0)], w)
        p, m = os.path.join(w, "p.ndjson"), os.path.join(w, "m.ndjson")
        mlevel = cmax < 100000        # small counter types: every value fits TLC's integers
        stats = vlib.vh(["scenario", tag, "--in", scf, "--out", p] + (["--mout", m] if mlevel else []), w)
        ctx.e3_calls += stats["calls"]
        ctx.executed += stats["calls"]
        n, rej = vlib.adjudicate("P_CMS", p, w)
        ctx.judged += n
        add_rejects(ctx, rej, p, tag, "P_CMS", scenarios=scf)
        sample_records(ctx, p, 1, '"merge"')
        if mlevel and not stats.get("hang"):
            # M-level trace validation (code -> spec) of the recorded scenarios, grouped by table shape
            nm, drift, ng = vlib.mvalidate_grouped("Trace_CMS", m, w, lambda c: (c["w"], c["d"]) if c.get("w", 999) * c.get("d", 999) <= 64 else None,
                                                   lambda k, cmax=cmax: {"W": k[0], "D": k[1], "CMax": cmax})
            ctx.mvalidated += nm
            ctx.drift += len(drift)
            if drift:
                ctx.drift_notes.append({"cms_scenario_calls_not_reproduced_by_spec": drift[:5], "type": tag})
            ctx.extra.setdefault("m_level_trace_validation", []).append({"structure": "CountMinSketch<%s>" % tag, "configurations": ng, "calls": nm, "not_reproduced": len(drift)})


def run_cms(ctx):
    alltypes = ["cms8", "cms16", "cms32", "cms64", "cmsz"]
    if not ctx.lite:
        # unbounded-history extra (2x3 table, arbitrary positions, weights to 10^6): inductive invariant under Apalache
        apalache_inductive(ctx, "CMSInd", ["IndInv"], "NeverUnder")
    if ctx.quick and ctx.lite:
        cms_e1(ctx, [(2, 1, 2, 6, [1, 2, 5], 4, False), (2, 3, 2, 6, [1, 2, 5], 4, True)])
        cms_e2(ctx, [(3, 2, 3)], n_fs=1, pairs=1500, types=["cms8", "cms64"])
        cms_e3(ctx, 25, ["cms16", "cmsz"])
    elif ctx.quick:
        cms_e1(ctx, [(1, 1, 2, 6, [1, 2, 5], 4, False), (2, 1, 2, 6, [1, 2, 5], 4, False), (1, 2, 2, 6, [1, 2, 5], 4, False),
                     (3, 2, 3, 6, [1, 2, 5], 3, True), (2, 3, 2, 6, [1, 2, 5], 4, True)])
        cms_e2(ctx, [(3, 2, 3), (2, 3, 3)], n_fs=1, pairs=1500, types=alltypes)
        cms_e3(ctx, 25, alltypes)
    else:
        cms_e1(ctx, [(1, 1, 3, 6, [1, 2, 5], 5, False), (2, 1, 3, 6, [1, 2, 5], 5, False), (1, 2, 3, 6, [1, 2, 5], 5, False),
                     (3, 2, 3, 6, [1, 2, 5], 4, False), (2, 3, 3, 6, [1, 2, 5], 4, False), (2, 2, 3, 6, [1, 2, 5], 5, True)])
        cms_e2(ctx, [(1, 1, 4), (3, 2, 4), (2, 3, 4), (4, 2, 3), (1, 3, 4)], n_fs=4, pairs=20000, types=alltypes)
        cms_e3(ctx, 400, alltypes)


# HyperLogLog
def hll_e1(ctx, shapes):
    for (b, nh, two) in shapes:
        c = {"B": b, "NH": nh, "EMIT": "FALSE", "TWO": "TRUE" if two else "FALSE"}
        ctx.e1.append(vlib.model_check("MC_HLL", c, ["SetFunction", "RangeOK", "EmptyIff", "Algebra"], ctx.sub("e1")))


def hll_e2(ctx, shapes, pairs):
    for (b, nh) in shapes:
        w = ctx.sub("hll_%d_%d" % (b, nh))
        c = {"B": b, "NH": nh, "EMIT": "TRUE", "TWO": "FALSE"}
        gen, st = vlib.generate("MC_HLL", c, w, "gen.out")
        pf, h, mm = [os.path.join(w, x) for x in ("p.ndjson", "hist.ndjson", "m.ndjson")]
        stats = vlib.vh(["replay", "hll", "--gen", gen, "--out", pf, "--hist", h, "--mout", mm, "--reps", "2", "--max-alt", "50",
                         "--pairs", str(pairs), "--pair-op", "merge", "--seed", str(ctx.seed)], w)
        os.remove(gen)
        if stats.get("missing") and not stats.get("panics"):
            raise ToolError("replay could not reach %d emitted transitions" % stats["missing"])
        ctx.e2_transitions += stats["transitions"] + stats["pairs"]
        ctx.executed += stats["executed"] + stats["alt_executed"] + stats["pairs"]
        ctx.drift += stats["drift"]
        ctx.drift_notes += stats.get("first_drift", [])
        ctx.add_tags(stats.get("tags"), stats.get("tagged_distinct"))
        ctx.extra.setdefault("state_graphs", []).append({"structure": "HyperLogLog", "b": b, "hashes": nh, "spec_states": st["distinct"],
                                                         "materialised_as_real_objects": stats["states"], "merge_pairs": stats["pairs"]})
        n, rej = vlib.adjudicate("P_HLL", pf, w)
        ctx.judged += n
        add_rejects(ctx, rej, pf, "hll", "P_HLL", hist=h)
        sample_records(ctx, pf, 1, '"raises-register"')
        if stats["pairs"]:
            nm, drift = vlib.mvalidate("Trace_HLL", {"B": b}, mm, w)
            ctx.mvalidated += nm
            ctx.drift += len(drift)


def hll_e3(ctx, scenarios):
    w = ctx.sub("hll_e3")
    scf = os.path.join(w, "scenarios.ndjson")
    vlib.vh(["drive", "hll", "--out", scf, "--seed", str(ctx.seed), "--scenarios", str(scenarios)], w)
    p = os.path.join(w, "p.ndjson")
    stats = vlib.vh(["scenario", "hll", "--in", scf, "--out", p], w)
    ctx.e3_calls += stats["calls"]
    ctx.executed += stats["calls"]
    n, rej = vlib.adjudicate("P_HLL", p, w)
    ctx.judged += n
    add_rejects(ctx, rej, p, "hll", "P_HLL", scenarios=scf)
    sample_records(ctx, p, 1, '"roundtrip"')


def hll_serde(ctx, big):
    w = ctx.sub("hll_serde")
    c = {"EMIT": "TRUE", "BIG": "TRUE" if big else "FALSE"}
    gen, st = vlib.generate("Gen_HLLSerde", c, w, "docs.out")
    ctx.e1.append({"module": "Gen_HLLSerde", "constants": c, "invariants": [], "states": st["distinct"], "transitions": st["generated"],
                   "depth": 1, "ok": True, "secs": 0})
    p = os.path.join(w, "p.ndjson")
    stats = vlib.vh(["serde", "hll", "--gen", gen, "--out", p, "--seed", str(ctx.seed)], w)
    if stats["docs"] != st["distinct"]:
        raise ToolError("harness rendered %d documents, TLC emitted %d" % (stats["docs"], st["distinct"]))
    ctx.e2_transitions += stats["docs"]
    ctx.executed += stats["docs"]
    n, rej = vlib.adjudicate("P_HLLSerde", p, w)
    ctx.judged += n
    for tid, clause in rej:
        ctx.rejects.append({"tid": tid, "clause": clause, "records": p, "s": "hllserde", "pspec": "P_HLLSerde", "pconsts": {}, "hist": None,
                            "scenarios": None, "kind": "serde"})
    # distinct non-trivial documents: invalid ones (they must be rejected or yield a usable sketch) and valid ones with random/max registers
    nt = 0
    for line in open(p):
        if '"k":"p"' in line and ('"valid":false' in line or '"fill":"rand"' in line or '"fill":"max"' in line):
            nt += 1
    ctx.tagged += nt
    sample_records(ctx, p, 2, '"valid":false')


def serde_replay(ctx, rp):
    w = ctx.sub("replay_run")
    doc = rp["record"]["doc"]
    gen = os.path.join(w, "doc.ndjson")
    with open(gen, "w") as f:
        f.write(json.dumps(doc) + "\n")
    p = os.path.join(w, "p.ndjson")
    vlib.vh(["serde", "hll", "--gen", gen, "--out", p], w)
    n, rej = vlib.adjudicate("P_HLLSerde", p, w, parallel=1)
    for t, c in rej:
        log("replay: document rejected by P_HLLSerde: %s" % c)
    if [c for t, c in rej if ctx.pid in vlib.clause_props(c)]:
        print("VIOLATION property=%s replay=%s" % (ctx.pid, rp.get("_path", "")), flush=True)
        return 1
    log("replay: property held on the replayed document")
    return 0


SPECIAL_REPLAY["serde"] = serde_replay


def run_hll(ctx):
    if ctx.quick:
        hll_e1(ctx, [(4, 6, True), (5, 7, False)])
        hll_e2(ctx, [(4, 9), (6, 8)], pairs=4000)
        hll_e3(ctx, 45)
    else:
        hll_e1(ctx, [(4, 9, True), (5, 10, False), (4, 12, False)])
        hll_e2(ctx, [(4, 12), (5, 10), (6, 10), (8, 9)], pairs=60000)
        hll_e3(ctx, 1500)


def run_C20(ctx):
    hll_serde(ctx, big=not ctx.quick)
    hll_e3(ctx, 45 if ctx.quick else 900)


# LossyCounter
def run_lossy(ctx):
    shapes = [(1, 3, 7), (2, 3, 9), (3, 3, 9)] if ctx.quick else [(1, 3, 8), (2, 4, 10), (3, 4, 11), (4, 4, 12), (5, 3, 13)]
    for (w, ne, nmax) in shapes:
        c = {"Width": w, "NE": ne, "NMax": nmax, "D": 12, "EMIT": "FALSE"}
        ctx.e1.append(vlib.model_check("MC_Lossy", c, ["NoMiss", "NoIntruder", "TableBound", "Sandwich", "NCount"], ctx.sub("e1")))
    gshapes = [(1, 3, 6), (2, 3, 8), (3, 3, 8)] if ctx.quick else [(1, 3, 8), (2, 4, 10), (3, 4, 10), (4, 4, 11)]
    for (w, ne, nmax) in gshapes:
        c = {"Width": w, "NE": ne, "NMax": nmax, "D": 12, "EMIT": "TRUE"}
        std_e2(ctx, "MC_Lossy", c, "lc", "P_Lossy", "lc_%d_%d" % (w, ne), reps=1, max_alt=400, sample='"prunes"',
               label={"structure": "LossyCounter", "width": w, "symbols": ne, "max_stream": nmax})
        # the same state graph on a counter built by with_epsilon(eps) with ceil(1/eps) = w but 1/eps not an integer
        eps = {2: (3, 5), 3: (2, 5), 4: (3, 10), 5: (2, 9)}.get(w)
        if eps:
            std_e2(ctx, "MC_Lossy", c, "lc", "P_Lossy", "lc_%d_%d_eps" % (w, ne), reps=1, max_alt=400, sample='"prunes"',
                   cfg_extra={"eps_num": eps[0], "eps_den": eps[1]},
                   label={"structure": "LossyCounter", "width": w, "epsilon": "%d/%d" % eps, "symbols": ne, "max_stream": nmax})
    # E3 with M-level trace validation (code -> spec) of every recorded call, grouped by window width
    def lc_width(c):
        if c.get("ne", 999) > 80:
            return None
        return (c["width"],) if "width" in c else (int(math.ceil(1.0 / (c["eps_num"] / c["eps_den"]))),)   # the code's own float expression
    std_e3(ctx, "lc", "P_Lossy", "lc_e3", drive_args=["--scenarios", "30" if ctx.quick else "400", "--max-n", "3000" if ctx.quick else "40000"],
           sample='"tracked"', tspec="Trace_Lossy", tgroup=(lc_width, lambda k: {"Width": k[0]}), tlabel="LossyCounter")
    # unbounded-history extra (any stream length, width 3, four symbols): inductive invariant under Apalache
    apalache_inductive(ctx, "LossyInd", ["IndInv"], "Prop")


def apalache_inductive(ctx, module, indinv, prop):
    """Thorough-tier extra: unbounded-history safety by an inductive invariant under Apalache
    (Init => IndInv; IndInv /\ Next => IndInv'; IndInv => Prop).  A failure to *run* is a tool note, not a verdict."""
    w = ctx.sub("apalache")
    src = os.path.join(vlib.SPEC, "apalache", module + ".tla")
    res = []
    runs = [("init", ["--init=Init", "--inv=IndInv", "--length=0"]),
            ("step", ["--init=IndInv", "--inv=IndInv", "--length=1"]),
            ("implies", ["--init=IndInv", "--inv=" + prop, "--length=0"])]
    for name, a in runs:
        try:
            p = vlib.sh(["timeout", "900", "apalache-mc", "check", "--out-dir=" + os.path.join(w, "out"), "--run-dir=" + os.path.join(w, "run_" + name)] + a + [src],
                        cwd=w, check=False, timeout=1000)
            ok = "The outcome is: NoError" in p.stdout
            res.append({"obligation": name, "ok": ok})
            log("[apalache] %s %s: %s" % (module, name, "NoError" if ok else "NOT discharged"))
        except Exception as e:
            res.append({"obligation": name, "ok": False, "error": str(e)[:200]})
    ctx.extra.setdefault("apalache_inductive", []).append({"module": module, "obligations": res})
    if not all(r["ok"] for r in res):
        ctx.notes.append("Apalache inductive check for %s not fully discharged (extra, not a verdict): %s" % (module, res))


# CMSHeap
def run_heap(ctx):
    wd = ctx.sub("heap_learn")
    shapes = [(1, 1, 1, 3, 5), (2, 2, 1, 3, 5), (2, 2, 2, 3, 5)] if ctx.quick else [(1, 1, 1, 3, 6), (2, 2, 1, 4, 6), (2, 2, 2, 4, 6), (3, 2, 2, 4, 7), (2, 3, 2, 3, 6)]
    for (k, w, d, ne, nmax) in shapes:
        fs = vlib.vh(["learn", "heap", "--w", str(w), "--d", str(d)], wd)["fs"][0]
        code = sum((x % w) * (w ** i) for i, x in enumerate(fs))
        c = {"K": k, "W": w, "Dd": d, "NE": ne, "NMax": nmax, "FSCODE": code, "EMIT": "FALSE"}
        ctx.e1.append(vlib.model_check("MC_CMSHeap", c, ["Shape", "TopK"], ctx.sub("e1")))
        c["EMIT"] = "TRUE"
        if ctx.quick:
            c["NMax"] = nmax - 1
        std_e2(ctx, "MC_CMSHeap", c, "heap", "P_CMSHeap", "heap_%d_%d_%d" % (k, w, d), reps=1, max_alt=300, sample='"displaces-minimum"',
               label={"structure": "CMSHeap", "k": k, "w": w, "d": d, "elements": ne, "max_stream": c["NMax"]})
    std_e3(ctx, "heap", "P_CMSHeap", "heap_e3", drive_args=["--scenarios", "40" if ctx.quick else "600", "--max-n", "300" if ctx.quick else "3000"],
           sample='"ok"')


# Reservoir sampling
def rs_consts():
    return json.load(open(os.path.join(vlib.SPEC, "ReservoirAsBuilt.json")))


def rs_dist_table(ctx, records, w, k):
    """C05 verdict: TLC pushes exact weights through the table recorded from the real sampler, which the harness
    explores breadth first over the sampler's OWN states (independent of the states the mechanism spec predicts)."""
    tab = os.path.join(w, "table.ndjson")
    stats = vlib.vh(["rsdist", "all", "--k", str(k), "--out", tab], w)
    n = stats["rows"]
    ctx.executed += n
    ctx.e3_calls += n
    if stats.get("gap_pattern_ok") is False and not any("gap_phase_draw_order" in str(d) for d in ctx.drift_notes):
        ctx.drift += 1
        ctx.drift_notes.append({"gap_phase_draw_order_differs_from_mechanism_spec": "the deterministic gap clause C05.gapSampling is not evaluated (the measured clause still is)"})
        log("[P] reservoir: the code consumes the draws of an accepted gap-phase add in another order than the mechanism spec; C05.gapSampling not evaluated")
    if stats.get("deviation"):
        ctx.drift += 1
        ctx.drift_notes.append({"reservoir_random_script_consumed_differently_from_mechanism_spec": stats["deviation"], "k": k,
                                "exact_distribution_judged_up_to_n": stats["levels_complete"]})
        log("[P] reservoir k=%d: the code consumes the random script differently from the mechanism spec at n=%s; exact distribution judged only up to n=%d"
            % (k, stats["deviation"].get("n"), stats["levels_complete"]))
        if stats["levels_complete"] <= k:
            ctx.extra.setdefault("exact_distribution_tables", []).append({"k": k, "recorded_draws": 0, "n_checked": "none (call pattern differs)", "rejected": 0})
            return
    outp, rc, secs = vlib.tlc("P_ReservoirDist", vlib.PCFG, w, env={"TRACE": tab}, workers=1, timeout=1800, xmx="4g")
    txt = open(outp, errors="replace").read()
    m = re.search(r'<<"CHECKED", (\d+), (\d+)>>', txt)
    if rc != 0 or not m or m.group(1) != m.group(2):
        raise ToolError("P_ReservoirDist did not finish (rc=%d)\n%s" % (rc, txt[-3000:]))
    rej = [(int(a), b) for a, b in re.findall(r'<<\s*"REJECT",\s*(\d+),\s*"([^"]*)"\s*>>', txt)]
    det = re.findall(r'<<\s*"DETAIL".*?>>\s*>>|<<\s*"DETAIL"[^\n]*', txt, re.S)
    log("[P] P_ReservoirDist pushed exact weights through %d recorded draws (k=%d, n <= %d): %d rejected (%.1fs)" % (n, k, 4 * k + 1, len(rej), secs))
    for d in det[:3]:
        log("    " + " ".join(d.split())[:400])
    ctx.judged += n
    for nn, clause in rej:
        ctx.rejects.append({"tid": nn, "clause": clause, "records": tab, "s": "rs", "pspec": "P_ReservoirDist", "pconsts": {}, "hist": None,
                            "scenarios": None, "kind": "rsdist", "extra": {"k": k, "n": nn}})
    ctx.extra.setdefault("exact_distribution_tables", []).append({"k": k, "recorded_draws": n, "n_checked": "k..4k+1", "rejected": len(rej)})


def rsdist_replay(ctx, rp):
    ctx2 = Ctx(ctx.pid, ctx.tier, ctx.seed, ctx.sub("replay_run"))
    k = rp["extra"]["k"]
    rs_e2(ctx2, [k], dist=True)
    mine = [r for r in ctx2.rejects if ctx.pid in vlib.clause_props(r["clause"])]
    for r in mine:
        log("replay: %s" % r["clause"])
    if mine:
        print("VIOLATION property=%s replay=%s" % (ctx.pid, rp.get("_path", "")), flush=True)
        return 1
    log("replay: exact distribution for k=%d is uniform up to n=4k+1" % k)
    return 0


SPECIAL_REPLAY["rsdist"] = rsdist_replay


def rs_e1(ctx, ks, dist_ks):
    asb = rs_consts()
    for k in ks:
        c = {"K": k, "NMax": 4 * k + 4, "GMax": 3, "EMIT": "FALSE"}
        c.update(asb)
        ctx.e1.append(vlib.model_check("MC_Reservoir", c, ["ValidInv"], ctx.sub("e1")))
    for k in dist_ks:
        c = {"K": k}
        c.update(asb)
        ctx.e1.append(vlib.model_check("MC_ReservoirDist", c, ["Inv"], ctx.sub("e1"), workers=1))


def rs_e2(ctx, ks, dist):
    asb = rs_consts()
    for k in ks:
        c = {"K": k, "NMax": 4 * k + 4, "GMax": 3, "EMIT": "TRUE"}
        c.update(asb)
        std_e2(ctx, "MC_Reservoir", c, "rs", "P_Reservoir", "rs_%d" % k, reps=1, max_alt=1200, sample='"switch',
               label={"structure": "ReservoirSampling", "k": k, "max_stream": 4 * k + 4})
        if dist:
            w = ctx.sub("rs_%d" % k)
            try:
                rs_dist_table(ctx, os.path.join(w, "p.ndjson"), w, k)
            except ToolError as e:
                # k = 3 needs gcd-normalised weights to stay within 32-bit integers; a grossly non-uniform sampler can
                # overflow them.  The k = 1, 2 tables (always exact) have then already rejected it.
                if k >= 3 and any(r["pspec"] == "P_ReservoirDist" for r in ctx.rejects):
                    ctx.notes.append("k=%d distribution table not evaluated (integer overflow on a non-uniform table): %s" % (k, str(e)[:200]))
                else:
                    raise


def rs_freq(ctx):
    """C05 measured clause: inclusion counts over seeded runs of the real sampler, judged by P_ReservoirFreq."""
    w = ctx.sub("rs_freq")
    p = os.path.join(w, "p.ndjson")
    stats = vlib.vh(["rsfreq", "all", "--out", p, "--seed", str(ctx.seed), "--runs", "3000"] + ([] if ctx.quick else ["--thorough"]), w)
    n, rej = vlib.adjudicate("P_ReservoirFreq", p, w, parallel=1)
    ctx.judged += n
    ctx.executed += stats["total_runs"]
    ctx.e3_calls += stats["total_runs"]
    add_rejects(ctx, rej, p, "rsfreq", "P_ReservoirFreq")
    ctx.extra["measured_inclusion_frequencies"] = {"configurations": stats["cases"], "runs_each": stats["runs"], "rejected": len(rej)}


def run_rs(ctx, dist):
    if dist:
        rs_freq(ctx)
    if ctx.quick:
        rs_e1(ctx, [1, 2], [1, 2] if dist else [])
        rs_e2(ctx, [1, 2], dist)
        std_e3(ctx, "rs", "P_Reservoir", "rs_e3", drive_args=["--scenarios", "24", "--max-n", "3000"], sample='"gap"')
    else:
        rs_e1(ctx, [1, 2, 3], [1, 2, 3] if dist else [])
        rs_e2(ctx, [1, 2, 3], dist)
        std_e3(ctx, "rs", "P_Reservoir", "rs_e3", drive_args=["--scenarios", "300", "--max-n", "100000"], sample='"gap"')


# T-Digest
def td_consts():
    return json.load(open(os.path.join(vlib.SPEC, "TDigestAsBuilt.json")))


def td_e1(ctx, mech, fn):
    asb = td_consts()
    for (scale, dn, dd, mb, vals, weights, maxops) in mech:
        c = {"MaxBacklog": mb, "Values": "{" + ",".join(map(str, vals)) + "}", "Weights": "{" + ",".join(map(str, weights)) + "}", "MaxOps": maxops,
             "Scale": '"%s"' % scale, "DeltaN": dn, "DeltaD": dd, "ClearResetsN": asb["ClearResetsN"]}
        ctx.e1.append(vlib.model_check("MC_TDigest", c, ["Mass", "MinMax", "EmptyIff", "Sorted", "BacklogBound", "Between", "SizeK0", "ClearFresh"], ctx.sub("e1")))
    for (maxc, maxcount, maxval, qd) in fn:
        c = {"RightTailFixed": asb["RightTailFixed"], "MaxC": maxc, "MaxCount": maxcount, "MaxVal": maxval, "QD": qd}
        ctx.e1.append(vlib.model_check("MC_TDigestFn", c, ["QMono", "QRange", "QEnds", "CMono", "CRange", "Inverse", "InverseWeak"], ctx.sub("e1")))


def td_e2(ctx, vals, weights16, maxops, configs):
    asb = td_consts()
    for (scale, dn, dd, mb) in configs:
        extra = json.dumps({"scale": scale, "dn": dn, "dd": dd, "mb": mb, "qd": 8, "xlo2": -2, "xn": 2 * max(vals) + 5})
        w = ctx.sub("td_%s_%d_%d_%d" % (scale, dn, dd, mb))
        c = {"Values": "{" + ",".join(map(str, vals)) + "}", "Weights": "{" + ",".join(map(str, weights16)) + "}", "MaxOps": maxops, "EMIT": "TRUE"}
        gen, st = vlib.generate("Gen_TDigest", c, w, "gen.out")
        pf, h, mm = [os.path.join(w, x) for x in ("p.ndjson", "hist.ndjson", "m.ndjson")]
        stats = vlib.vh(["replay", "td", "--gen", gen, "--out", pf, "--hist", h, "--mout", mm, "--mall", "--reps", "1", "--max-alt", "0",
                         "--cfg-extra", extra, "--seed", str(ctx.seed)], w)
        os.remove(gen)
        ctx.e2_transitions += stats["transitions"]
        ctx.executed += stats["executed"]
        ctx.add_tags(stats.get("tags"), stats.get("tagged_distinct"))
        ctx.extra.setdefault("state_graphs", []).append({"structure": "TDigest<%s>" % scale, "delta": "%d/%d" % (dn, dd), "max_backlog": mb,
                                                         "histories_as_states": st["distinct"], "materialised_as_real_objects": stats["states"]})
        handle_hang(ctx, stats, pf, "td", "P_TDigest", hist=h)
        n, rej = vlib.adjudicate("P_TDigest", pf, w)
        ctx.judged += n
        for r in rej:
            pass
        add_rejects(ctx, rej, pf, "td", "P_TDigest", hist=h)
        for r in ctx.rejects:
            if r["records"] == pf and r.get("hist") == h:
                r["cfg_extra"] = json.loads(extra)
        sample_records(ctx, pf, 1, '"fused"')
        nm, drift = vlib.mvalidate("Trace_TDigest", {"ClearResetsN": asb["ClearResetsN"]}, mm, w)
        ctx.mvalidated += nm
        ctx.drift += len(drift)
        if drift:
            ctx.drift_notes.append({"tdigest_layout_changes_not_legal_for_mechanism_spec": drift[:5], "config": extra})


def td_e3(ctx, scenarios):
    asb = td_consts()
    std_e3(ctx, "td", "P_TDigest", "td_e3", drive_args=["--scenarios", str(scenarios)], sample='"merged"',
           tspec="Trace_TDigest", tconsts={"ClearResetsN": asb["ClearResetsN"]})


def td_real(ctx, scenarios):
    std_e3(ctx, "tdr", "P_TDigestReal", "tdr_e3", drive_args=["--scenarios", str(scenarios)], sample='"ins"')


def td_rank(ctx, digests, max_n):
    w = ctx.sub("td_rank")
    p = os.path.join(w, "rank.ndjson")
    stats = vlib.vh(["rank", "td", "--out", p, "--seed", str(ctx.seed), "--digests", str(digests), "--max-n", str(max_n)], w)
    ctx.e3_calls += stats["digests"]
    ctx.executed += stats["digests"]
    n, rej = vlib.adjudicate("P_TDigestRank", p, w, parallel=8)
    ctx.judged += n
    ctx.tagged += n
    for tid, clause in rej:
        ctx.rejects.append({"tid": tid, "clause": clause, "records": p, "s": "tdrank", "pspec": "P_TDigestRank", "pconsts": {}, "hist": None,
                            "scenarios": None, "kind": "tdrank", "extra": {"seed": ctx.seed, "digests": digests, "max_n": max_n}})
    sample_records(ctx, p, 1)


def tdrank_replay(ctx, rp):
    ctx2 = Ctx(ctx.pid, ctx.tier, rp["extra"]["seed"], ctx.sub("replay_run"))
    td_rank(ctx2, rp["extra"]["digests"], rp["extra"]["max_n"])
    mine = [r for r in ctx2.rejects if ctx.pid in vlib.clause_props(r["clause"])]
    for r in mine[:5]:
        log("replay: digest %s: %s" % (r["tid"], r["clause"]))
    if mine:
        print("VIOLATION property=%s replay=%s" % (ctx.pid, rp.get("_path", "")), flush=True)
        return 1
    log("replay: rank accuracy held on the regenerated digests")
    return 0


SPECIAL_REPLAY["tdrank"] = tdrank_replay

TD_CONFIGS_Q = [("K0", 4, 1, 0), ("K0", 3, 2, 1), ("K1", 4, 1, 1), ("K2", 5, 2, 0), ("K3", 10, 1, 3), ("K1", 11, 10, 0)]
TD_CONFIGS_T = TD_CONFIGS_Q + [("K0", 2, 1, 3), ("K0", 4, 1, 1), ("K2", 4, 1, 1), ("K3", 3, 2, 0), ("K2", 100, 1, 3), ("K3", 11, 10, 1)]


def run_td(ctx, rank=False):
    if ctx.quick and ctx.lite:
        td_e1(ctx, [("any", 2, 1, 1, [0, 1, 2, 3], [0, 1, 2], 5)], [])
        td_e2(ctx, [0, 3], [0, 16, 64], 4, [("K0", 4, 1, 0), ("K2", 5, 2, 0), ("K3", 10, 1, 3)])
        td_e3(ctx, 40)
        td_real(ctx, 40)
    elif ctx.quick:
        td_e1(ctx, [("any", 2, 1, 1, [0, 1, 2, 3], [0, 1, 2], 5), ("K0", 2, 1, 1, [0, 1, 2, 3], [0, 1, 2], 5), ("K0", 3, 2, 0, [0, 1, 3], [1, 2], 5)],
              [(3, 2, 3, 8)])
        td_e2(ctx, [0, 3], [0, 16, 64], 4, TD_CONFIGS_Q)
        td_e3(ctx, 40)
        td_real(ctx, 60)
        if rank:
            td_rank(ctx, 32, 20000)
    else:
        td_e1(ctx, [("any", 2, 1, 1, [0, 1, 2, 3], [0, 1, 2], 6), ("K0", 2, 1, 1, [0, 1, 2, 3], [0, 1, 2], 6), ("K0", 3, 2, 0, [0, 1, 2, 3], [1, 2], 6),
                    ("K0", 4, 1, 3, [0, 1, 2, 3], [0, 1, 2], 6), ("any", 2, 1, 3, [0, 1, 2], [1, 4], 6)],
              [(4, 3, 4, 8)])
        td_e2(ctx, [0, 1, 3], [0, 4, 16, 32], 4, TD_CONFIGS_T)
        td_e3(ctx, 600)
        td_real(ctx, 1500)
        if rank:
            td_rank(ctx, 400, 50000)


def run_C04(ctx):
    run_td(ctx, rank=True)


# C11 memory
def run_C11(ctx):
    # container-size invariants of the mechanism specs (E1)
    asb = td_consts()
    c = {"MaxBacklog": 1, "Values": "{0,1,2,3}", "Weights": "{0,1,2}", "MaxOps": 5 if ctx.quick else 6, "Scale": '"any"', "DeltaN": 2, "DeltaD": 1, "ClearResetsN": asb["ClearResetsN"]}
    ctx.e1.append(vlib.model_check("MC_TDigest", c, ["BacklogBound", "Sorted"], ctx.sub("e1")))
    c = {"K": 2, "NMax": 12, "GMax": 3, "EMIT": "FALSE"}
    c.update(rs_consts())
    ctx.e1.append(vlib.model_check("MC_Reservoir", c, ["ValidInv"], ctx.sub("e1")))
    c = {"Width": 2, "NE": 3, "NMax": 9, "D": 12, "EMIT": "FALSE"}
    ctx.e1.append(vlib.model_check("MC_Lossy", c, ["TableBound"], ctx.sub("e1")))
    w = ctx.sub("mem")
    p = os.path.join(w, "mem.ndjson")
    stats = vlib.vh(["mem", "all", "--out", p] + ([] if ctx.quick else ["--thorough"]), w)
    ctx.e3_calls += stats["measurements"]
    ctx.executed += stats["measurements"]
    n, rej = vlib.adjudicate("P_Memory", p, w, parallel=1)
    ctx.judged += n
    ctx.tagged += n
    for tid, clause in rej:
        ctx.rejects.append({"tid": tid, "clause": clause, "records": p, "s": "mem", "pspec": "P_Memory", "pconsts": {}, "hist": None, "scenarios": None, "kind": "mem"})
    sample_records(ctx, p, 2, '"cuckoo"')


def mem_replay(ctx, rp):
    ctx2 = Ctx(ctx.pid, ctx.tier, ctx.seed, ctx.sub("replay_run"))
    run_C11(ctx2)
    mine = [r for r in ctx2.rejects if ctx.pid in vlib.clause_props(r["clause"])]
    want = rp["record"]["cfg"] if rp.get("record") else None
    for r in mine[:5]:
        log("replay: measurement %s: %s" % (r["tid"], r["clause"]))
    if mine:
        print("VIOLATION property=%s replay=%s" % (ctx.pid, rp.get("_path", "")), flush=True)
        return 1
    log("replay: memory bounds held")
    return 0


SPECIAL_REPLAY["mem"] = mem_replay


# C07 sizing
def run_C07(ctx):
    asb = json.load(open(os.path.join(vlib.SPEC, "BloomAsBuilt.json")))
    w = ctx.sub("sizing")
    c = {"EMIT": "FALSE", "BIG": "FALSE" if ctx.quick else "TRUE", "BloomAsFound": asb["BloomAsFound"]}
    ctx.e1.append(vlib.model_check("Gen_Sizing", c, ["UsableK"], ctx.sub("e1"), workers=1))
    c["EMIT"] = "TRUE"
    gen, st = vlib.generate("Gen_Sizing", c, w, "pts.out")
    p = os.path.join(w, "p.ndjson")
    stats = vlib.vh(["sizing", "all", "--gen", gen, "--out", p, "--seed", str(ctx.seed)], w)
    if stats["points"] != st["distinct"]:
        raise ToolError("harness processed %d points, TLC emitted %d" % (stats["points"], st["distinct"]))
    ctx.e2_transitions += stats["points"]
    ctx.executed += 3 * stats["points"]
    ctx.drift += stats["kdrift"]
    if stats["kdrift"]:
        ctx.drift_notes.append({"bloom_k_differs_from_spec_K(p)_on_points": stats["kdrift"]})
    n, rej = vlib.adjudicate("P_Sizing", p, w, parallel=2)
    ctx.judged += n
    ctx.tagged += n
    _, recs = vlib.load_records(p, [tid for tid, _ in rej]) if rej else (None, {})
    for tid, clause in rej:
        r = recs.get(tid) or {}
        ctx.rejects.append({"tid": tid, "clause": clause, "records": p, "s": "sizing", "pspec": "P_Sizing", "pconsts": {}, "hist": None, "scenarios": None, "kind": "sizing",
                            "sig": "pexp=%d n=%d" % (r.get("pexp", 0), r.get("n", 0))})
    sample_records(ctx, p, 2)
    extra_constructors(ctx)
    extra_extend(ctx)
    # the quotient-filter clause of C07 (false positives only from fingerprint collisions) is the exact-set invariant of C13
    qf_e1(ctx, [(2, 1), (2, 2)])
    qf_e2(ctx, [(2, 2)], pairs=0)


def extra_constructors(ctx):
    """Extra coverage (not a listed property): documented argument contracts of every constructor.  Mismatches are
    reported as notes (clause prefix X.), never as a verdict of the property being checked."""
    w = ctx.sub("ctor")
    c = {"EMIT": "FALSE"}
    ctx.e1.append(vlib.model_check("Gen_Constructors", c, ["Inv"], ctx.sub("e1"), workers=1))
    c["EMIT"] = "TRUE"
    gen, st = vlib.generate("Gen_Constructors", c, w, "cases.out")
    p = os.path.join(w, "p.ndjson")
    stats = vlib.vh(["ctor", "all", "--gen", gen, "--out", p], w)
    n, rej = vlib.adjudicate("P_Constructors", p, w, parallel=1)
    ctx.judged += n
    ctx.executed += stats["cases"]
    ctx.e2_transitions += stats["cases"]
    ctx.extra["constructor_contracts"] = {"cases": stats["cases"], "mismatches": sorted(set(cl for _, cl in rej))}
    for tid, clause in rej[:10]:
        log("EXTRA (constructor contract, not a verdict): case %d: %s" % (tid, clause))
    if rej:
        ctx.notes.append("constructor contract mismatches (extra coverage): %d" % len(rej))


def extra_extend(ctx):
    """Extra coverage (not a listed property): Extend::extend equals repeated add for the five structures that
    implement it.  Mismatches are reported as notes (clause prefix X.), never as a verdict."""
    w = ctx.sub("extend")
    c = {"EMIT": "FALSE", "MaxPre": 2, "MaxExt": 3 if ctx.quick else 4, "NKeys": 3}
    ctx.e1.append(vlib.model_check("Gen_Extend", c, ["Inv"], ctx.sub("e1"), workers=1))
    c["EMIT"] = "TRUE"
    gen, st = vlib.generate("Gen_Extend", c, w, "cases.out")
    p = os.path.join(w, "p.ndjson")
    stats = vlib.vh(["ext", "all", "--gen", gen, "--out", p], w)
    n, rej = vlib.adjudicate("P_Extend", p, w, parallel=1)
    ctx.judged += n
    ctx.executed += stats["cases"]
    ctx.e2_transitions += stats["cases"]
    ctx.extra["extend_equals_repeated_add"] = {"cases": stats["cases"], "mismatches": sorted(set(cl for _, cl in rej))}
    for tid, clause in rej[:10]:
        log("EXTRA (Extend::extend, not a verdict): case %d: %s" % (tid, clause))
    if rej:
        ctx.notes.append("Extend::extend mismatches (extra coverage): %d" % len(rej))


def sizing_replay(ctx, rp):
    w = ctx.sub("replay_run")
    r = rp["record"]
    gen = os.path.join(w, "pt.ndjson")
    with open(gen, "w") as f:
        f.write(json.dumps({"k": "pt", "n": r["n"], "a": r["a"], "c": r["c"], "pexp": r.get("pexp", 0), "kspec": r["kspec"]}) + "\n")
    p = os.path.join(w, "p.ndjson")
    vlib.vh(["sizing", "all", "--gen", gen, "--out", p, "--seed", str(ctx.seed)], w)
    n, rej = vlib.adjudicate("P_Sizing", p, w, parallel=1)
    for t, c in rej:
        log("replay: point n=%s p=%s/%s rejected: %s" % (r["n"], r["a"], r["c"], c))
    if [c for t, c in rej if ctx.pid in vlib.clause_props(c)]:
        print("VIOLATION property=%s replay=%s" % (ctx.pid, rp.get("_path", "")), flush=True)
        return 1
    log("replay: property held on the replayed point")
    return 0


SPECIAL_REPLAY["sizing"] = sizing_replay


def handle_hang(ctx, stats, records, tag, pspec, hist=None):
    for h in stats.get("hang", []):
        for g in vlib.HANGS:
            if g["hang"] is h:
                g["handled"] = True
        ctx.rejects.append({"tid": h.get("tid", 0), "clause": hang_clause(ctx.pid, h),
                            "records": records, "s": tag, "pspec": pspec, "pconsts": {}, "hist": hist, "scenarios": None,
                            "sig": "hang"})


def run_C13(ctx):
    if ctx.quick:
        qf_e1(ctx, [(1, 1), (2, 1), (1, 2), (2, 2), (3, 1)])
        qf_e2(ctx, [(1, 1), (2, 1), (2, 2)], pairs=3000)
        qf_e3(ctx, 40, 8)
    else:
        qf_e1(ctx, [(1, 1), (2, 1), (1, 2), (2, 2), (3, 1), (2, 3)])
        qf_e2(ctx, [(1, 1), (2, 1), (1, 2), (2, 2), (3, 1)], pairs=30000, gen_workers=4)
        qf_e3(ctx, 600, 16)


CK_RULE = ("E1: every reachable state of the cuckoo M-spec (two instances, all alt-bucket functions H, every victim script up to MaxKicks); "
           "E2: every transition of the single-instance graph (MaxKicks=500 as in the code, periodic victim scripts) executed on real objects, two keys per class, "
           "plus union over pairs of materialised states; non-trivial = tagged (eviction of 1 / >=2 kicks, failing insert with rollback, second-bucket or duplicate insert, delete)")
CK_ASSUME = ["TLC and the TLA+ P-spec P_Cuckoo are the judge of every executed call",
             "random draws are scripted through rand 0.8's documented sampling algorithms (self-tested against the linked crate at start-up)",
             "hash control through a BuildHasher that is a function of the written bytes; (fingerprint, buckets) of keys learned by probing the code"]

PROPS = {
    "C14": {"run": run_ck, "level": "model_checking", "rule": CK_RULE, "assumptions": CK_ASSUME},
    "C01": {"run": run_C01, "level": "model_checking",
            "rule": "Bloom: E1 over every hasher (h1,h2,f) for the listed (m,k), E2 every transition over all (h1,h2) pairs for shift vectors of real hashers; "
                    "cuckoo as C14; quotient filter as C13; HashSet reference through E3 scenarios; non-trivial = tagged by a coverage predicate of the specs",
            "assumptions": CK_ASSUME},
    "C02": {"run": run_cms, "level": "model_checking",
            "rule": "E1: two sketches, every hasher (h1,h2,f), weights incl. overflow, merge/clear, bounded depth; E2: every transition of the "
                    "single-sketch graph over all (h1,h2) pairs under shift vectors of real hashers on u8,u16,u32,u64,usize, merge over pairs of materialised states; "
                    "non-trivial = tagged (overflow panic, rows disagree, collision in every row)",
            "assumptions": ["TLC and the TLA+ P-spec P_CMS judge every executed call", "overflow of u32/u64/usize is not driven (TLC integers are 32-bit); u8 and u16 are"]},
    "C17": {"run": run_hll, "level": "model_checking",
            "rule": "E1: two sketches over boundary-pattern hashes (0, all ones, single bits at 0, b-1, b, b+1, 62, 63, colliding indices), the graph closes; "
                    "E2: every transition replayed through add_hashed and add (identity hasher), merge over pairs; E3: all b in 4..18; each call is accompanied by the other call form, "
                    "a permuted+duplicated replay into a fresh sketch and a reconstruction from registers; non-trivial = tagged (raises a non-zero register, absorbed by a larger rank, maximal rank)",
            "assumptions": ["TLC and the TLA+ P-spec P_HLL judge every executed call", "64-bit hashes are handled as four 16-bit limbs in TLA+"]},
    "C20": {"run": run_C20, "level": "exploration",
            "rule": "every document of the TLA+ document model Gen_HLLSerde (b x registers length x fill x field layout incl. omissions, duplicates, unknown and ill-typed fields; five layouts also in the positional / array form) "
                    "rendered as JSON and fed to serde_json; accepted sketches are exercised (count, add_hashed(0), add_hashed(MAX), add, merge) under catch_unwind; "
                    "round trips of sketches from E3 scenarios on all b; non-trivial = invalid documents and valid ones with random/maximal register bytes",
            "assumptions": ["serde_json as the concrete format", "TLC and the TLA+ P-spec P_HLLSerde judge every outcome"]},
    "C09": {"run": run_lossy, "level": "model_checking",
            "rule": "E1: every stream over 3-4 symbols up to the listed length for widths 1..5, every prefix, thresholds on twelfths; E2: every transition replayed, on a counter built by with_width and again on one built by with_epsilon(3/5 | 2/5 | 3/10 | 2/9) (non-integer 1/epsilon); "
                    "E3: streams to 4*10^4 with widths to 500, epsilons 3/10, 1/3, 2/7 ..., boundary-straddling adversarial streams, recorded at window boundaries +-1 and every 97th prefix, every recorded call also validated against the mechanism spec (Trace_Lossy); every width 1..160 with clear and reuse; "
                    "non-trivial = tagged (window-end prune removes entries, element re-enters after being pruned, boundary that keeps everything)",
            "assumptions": ["TLC and the TLA+ P-spec P_Lossy judge every executed call", "thresholds are taken on twelfths and epsilons on small rationals so that float ties are exact ties"]},
    "C10": {"run": run_heap, "level": "model_checking",
            "rule": "E1: every assignment of base hashes to 3-4 elements under the sketch's real shift vector, every stream up to the listed length, k in 1..3, sketches 1x1..2x2; "
                    "E2: every transition replayed in a debug build (keys found by search against the SipHash-fixed sketch, ordered like the model's elements); E3: k to 20, sketches 1x1 to 272x3; "
                    "non-trivial = tagged (newcomer displaces the minimum, newcomer rejected, first-seen element over-estimated by collisions, re-keying of a stored element)",
            "assumptions": ["TLC and the TLA+ P-spec P_CMSHeap judge every executed call", "E (largest sketch overestimate) is read from the embedded sketch through a read-only hook"]},
    "C18": {"run": lambda ctx: run_rs(ctx, False), "level": "model_checking",
            "rule": "E1: every outcome of every draw for k in 1..3 up to n = 4k+4 (gaps 0..3); E2: every transition replayed through a scripted RNG; "
                    "E3: k in {1,2,3,10,64,100}, n to 10^5 with pseudo-random, all-zero, all-one and alternating raw RNG words, Extend::extend steps (exact, over-estimating and absent size hints) during fill-up and after clears; non-trivial = tagged (replaces / keeps / switch accepts / first gap skips / gap accepts / gap skips)",
            "assumptions": ["TLC and the TLA+ P-spec P_Reservoir judge every executed call", "rand 0.8 sampling algorithms (self-tested at start-up) for scripted draws"]},
    "C05": {"run": lambda ctx: run_rs(ctx, True), "level": "model_checking",
            "level_text_extra": "exact for n <= 4k+1, k in {1,2} (k = 3 in the thorough tier) when the code consumes its generator as the mechanism spec says; gap phase bound by mechanism (deterministic gap clause) and, independently of the call pattern, by a measured 6-sigma clause over seeded runs",
            "rule": "exact inclusion probabilities by path counting: on the spec (MC_ReservoirDist) and on the table of draws recorded from the real sampler (P_ReservoirDist) for every n <= 4k+1, k in {1,2} (and k = 3 in the thorough tier, with gcd-normalised weights): "
                    "the table is explored breadth first over the real sampler's OWN states (every state reached, every plain-phase outcome j, every one of the 4k+1 equiprobable cells of the unit draw at the phase switch), so it does not depend on which slot or item the code picks; "
                    "if the code asks for randomness the script does not provide, the table stops there (drift, no verdict) and the measured clause decides: inclusion counts over 3000 (18000 for k <= 5) seeded ChaCha runs for 17 (33 thorough) (k, n) pairs, 6 sigma (P_ReservoirFreq; gap regime with the documented 1/k-order bias allowed); "
                    "gap phase: scripted unit values on a dyadic grid, the next accepted index must be base + g with GapOK; non-trivial = tagged transitions",
            "assumptions": ["uniformity of the RNG (rand's gen_range maps a uniform lattice of words to equiprobable outcomes; self-tested)", "the quantitative bias of gap sampling for n >> 4k is not decided (statement: 'of relative order 1/k')"]},
    "C16": {"run": run_td, "level": "model_checking",
            "rule": "E1: all histories of weighted inserts/reads/clears up to depth 5-6 with ARBITRARY fuse decisions (every scale function at once) and with the pinned K0 rule; "
                    "E2: the whole tree of histories up to depth 4 over integer values and dyadic weights executed on K0..K3 x delta x backlog, observed on clones; every layout change validated by TLC "
                    "against the mechanism (legal greedy partition of the stably sorted list, K0 rule); E3: longer random scenarios; non-trivial = a call that merged / fused / had zero weight",
            "assumptions": ["TLC and the TLA+ P-spec P_TDigest judge every executed call", "inputs are integers and power-of-two weights so that the expected aggregates are exact in f64 and in TLC integers"]},
    "C15": {"run": run_td, "level": "exploration",
            "rule": "shape of quantile/cdf proved on the exact-rational transcription (MC_TDigestFn) for every layout with <= 3-4 centroids, counts <= 2-3, means on 0..3-4; "
                    "on the code: every history of the depth-4 tree on K0..K3 and random scenarios, 9-point q-grid, half-integer x-grid, cdf(quantile(q)), repeated reads; non-trivial = merged / fused calls",
            "assumptions": ["comparisons in 2^-16 fixed point with a tolerance of 3 units", "cdf(quantile(q)) is compared within the largest centroid share (read through the hook)"]},
    "C04": {"run": run_C04, "level": "exploration",
            "rule": "centroid bound on every executed call with unit weights; rank error of quantile (17-point grid) and cdf (12 sampled points) against the inserted values on long streams: "
                    "K0..K3 x delta in {1.1,2,10,100,1000} x backlog in {0,1,10,1000} x n to 5*10^4 x {sorted, reverse, ~normal, heavy tail, 3-valued, saw-tooth} x read cadence; "
                    "bound 3 W + 2/n with W over-approximated in integers; every digest counts as non-trivial",
            "assumptions": ["only the loosest multiple (3 W) is checked; the 'one W for smooth densities' clause and n > 5*10^4 are not covered", "K1..K3 layouts are not predicted (asin/ln/exp)"]},
    "C06": {"run": run_C06, "level": "model_checking",
            "rule": "E1: two-instance models with union/merge for every structure (Bloom: state = OR of positions of everything inserted; CMS: every cell = sum of true weights; HLL: registers = max-rank map of the union of hash sets; "
                    "quotient filter: union result rules + commutativity/associativity/idempotence over all reachable triples; cuckoo: bag sum for all victim scripts); E2: union/merge executed on pairs of materialised states "
                    "(all pairs where the graph is small) and the result compared by TLC with the pure operator of the spec and with a real reference that received both streams; E3: random scenarios with three instances",
            "assumptions": CK_ASSUME},
    "C19": {"run": run_C19, "level": "model_checking",
            "rule": "all nine structures: every clear transition of the bounded models leaves an object from which all outgoing transitions are re-executed next to a freshly constructed object (lock-step, identical scripted RNG), "
                    "every executed call is preceded by a clone whose answers are re-read afterwards; TDigest on K0..K3 with pre-clear histories of 500-3500 inserts in E3",
            "assumptions": ["TLC and the TLA+ P-specs judge every executed call", "observational equality is equality of all public read answers over the key universe of the run"]},
    "C11": {"run": run_C11, "level": "exploration",
            "rule": "live heap bytes (counting allocator) of each of the nine structures over a configuration grid (fingerprint / remainder widths 2..64, sizes over orders of magnitude) "
                    "after construction, after 10^2..10^5 operations, after clear() and reuse, and on failed-insert / failed-union paths; judged by P_Memory against HeapModel(cfg); every measurement is a distinct configuration",
            "assumptions": ["allocation is outside what a TLA+ state machine models: the spec contributes the bound (HeapModel) and the container-size invariants, the allocator the measurement",
                            "constant factors: 3/2 for packed tables, 4 for Vec/HashMap-backed structures, + 4 KiB"]},
    "C07": {"run": run_C07, "level": "exploration",
            "rule": "every point of the TLA+ parameter plane Gen_Sizing (n in {1,2,3,7,50,1000[,20000]} x p = a/c incl. p > 1/2, 1 - 2^-j, 2^-j; n in {1,50} x p = 2^-31 .. 2^-70 given by the exponent, around the 64-bit fingerprint limit) constructed with with_properties / with_properties_4 / _8, "
                    "n distinct inserts, queries, len(); judged by P_Sizing: k >= 1, m >= 1, no panic, no Full, no false negative, 2b/2^l <= p, capacity >= n, and gross measured clauses with a 6-sigma margin on 20 000 probes "
                    "(Bloom false positives <= 1.3 p for n >= 1000, cuckoo <= p, Bloom len() within 10% for n >= 1000 at <= 50% occupancy), plus the textbook Bloom rate (1 - e^(-kn/m))^k of the constructor's own k and m against 1.3 p for n >= 50 (computed by the harness, compared by TLC in milli-nats); the quotient-filter rate clause is the exact-set invariant of C13 (re-run here); "
                    "every point is a distinct configuration",
            "assumptions": ["the Bloom rate and len() clauses are statistical: they are only checked grossly (single hasher seed per VERIF_SEED, 20 000 probes, 6-sigma margin, n >= 1000), so a sizing error below roughly 1.5x is not detected",
                            "constructor argument contracts (Gen_Constructors) and Extend::extend = repeated add (Gen_Extend) are run here as extra coverage and never affect the verdict"]},
    "C12": {"run": lambda ctx: (run_ck(ctx), run_C13(ctx)), "level": "model_checking", "rule": CK_RULE + "; quotient filter as C13", "assumptions": CK_ASSUME},
    "C13": {"run": run_C13, "level": "model_checking",
            "rule": "E1: every reachable state of the quotient-filter M-spec for the listed (q,r); E2: every emitted transition executed "
                    "on real objects with two keys per fingerprint class; a transition is non-trivial (counted in distinct_nontrivial) when it is tagged "
                    "by a coverage predicate of the spec (swap chain moved entries, wrap-around, >=2 shifted run starts, full table, rejected insert, known class)",
            "assumptions": ["TLC and the TLA+ P-spec P_Quotient are the judge of every executed call",
                            "hash control through a BuildHasher that is a function of the written bytes; classes are observational (probing the code)"]},
}

NOT_APPLICABLE = {
    "C03": "statistical accuracy of a floating-point estimator over hash seeds (RMS/mean/tail of relative error, 15 precisions, cardinalities to 50*2^18): "
           "TLC has no reals, no probability measure and 32-bit integers; the register state machine underneath is decided under C17/C20 (DESIGN.md section 6)",
    "C08": "a frequency over (hasher seed, element) pairs under real hashers; nothing to enumerate in a TLA+ model and the tiny models' exact collision counts do not "
           "transfer to w=272; the sketch's deterministic guarantees are decided under C02 (DESIGN.md section 6)",
}


def run_C05(ctx):
    run_rs(ctx, True)


def run_C18(ctx):
    run_rs(ctx, False)


def _dbg_td_real(ctx):
    td_real(ctx, 60)
    td_e3(ctx, 40)


def _dbg_td_real_big(ctx):
    td_real(ctx, 3000)
    td_e3(ctx, 600)


def _dbg_rs3(ctx):
    rs_e1(ctx, [], [3])
    rs_e2(ctx, [3], True)


def _dbg_ck_e2t(ctx):
    ck_e2(ctx, [(2, 2, 3, 2, False), (3, 2, 2, 1, False)], pairs=40000)
