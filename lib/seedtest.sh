#!/bin/bash
# seedtest.sh <patch.diff> <property> [<property> ...]
# Applies a seeded change to /repo, runs the quick checks of the given properties, reverts.
set -u
patch="$1"; shift
cd /repo || exit 2
if ! git diff --quiet; then echo "seedtest: /repo working tree is not clean"; exit 2; fi
git apply "$patch" || { echo "seedtest: patch does not apply"; exit 2; }
trap 'git -C /repo checkout -- . ' EXIT
cd /verif
for p in "$@"; do
  s=$(date +%s)
  out=$(./check "$p" --tier quick 2>&1)
  rc=$?
  e=$(date +%s)
  echo "== $p rc=$rc secs=$((e-s))"
  echo "$out" | grep -E "^VIOLATION|^violated clause|^DRIFT|TOOL-ERROR|KNOWN-FINDING" | head -8
done
