#!/usr/bin/env python3
"""Regenerate MANIFEST.json from the property registry (lib/pipelines.py)."""
import json, os, sys, subprocess
sys.path.insert(0, os.path.dirname(os.path.abspath(__file__)))
import pipelines

ROOT = os.path.dirname(os.path.dirname(os.path.abspath(__file__)))

LEVEL_TEXT = {
    "model_checking": "The mechanism is an explicit TLA+ specification; TLC checks the property on it exhaustively for small constants (every hash layout, "
                      "every history up to the graph's closure or the stated depth, every outcome of every random draw). The specification is bound to the code in both directions: "
                      "every TLC-emitted transition is executed on the real structure and compared (spec -> code), recorded calls on larger parameters are validated against the specification "
                      "(code -> spec), and every executed call is judged by the property-level TLA+ spec under TLC. This is the right level because the structures are small sequential state "
                      "machines once hashing and randomness are explicit inputs; beyond the bounds the claim rests on the traces only. ",
    "exploration": "The property mixes a deterministic core with numeric / allocation content that a TLA+ state machine cannot enumerate; the specification supplies the bound or the input-space model, "
                   "TLC enumerates that model and judges every recorded outcome, and the code is driven over a grid of configurations and inputs. What is explored is listed in the evidence; "
                   "no claim is made beyond it. ",
}


def level_text(pid, p):
    return LEVEL_TEXT[p["level"]] + "This check: " + p.get("rule", "")
ALL = [json.loads(l)["id"] for l in open(os.path.join(ROOT, "properties.jsonl"))]
hooks = subprocess.run(["git", "-C", "/repo", "log", "--format=%H %s"], stdout=subprocess.PIPE, text=True).stdout.splitlines()
hook_commits = [l.split()[0] for l in hooks if "verif hooks" in l]
m = {
    "version": 1,
    "setup_cmd": "cd /verif/harness && CARGO_NET_OFFLINE=true cargo build --offline --quiet && ./target/debug/vh selftest && cd /verif/spec && for f in *.tla; do tla-sany $f >/dev/null || exit 1; done",
    "hooks": {
        "guard": "pdatastructs_verif",
        "enable": "rustc --cfg pdatastructs_verif via /verif/harness/.cargo/config.toml rustflags (the harness has a path dependency on /repo and is rebuilt by every check)",
        "baseline_off_cmd": "cd /repo && cargo test --workspace --no-fail-fast --offline",
        "source_commits": hook_commits,
        "add_only": True,
    },
    "engines": [
        {"name": "tlc-e1", "path": "spec/MC_*.tla", "kind_free_text": "exhaustive TLC model checking of the mechanism specs (M-specs) against the property invariants",
         "serves_properties": sorted(pipelines.PROPS)},
        {"name": "replay-e2", "path": "harness/", "kind_free_text": "every TLC-emitted transition replayed on real objects (spec -> code), all pairs for union/merge",
         "serves_properties": sorted(pipelines.PROPS)},
        {"name": "trace-e3", "path": "spec/Trace_*.tla, spec/P_*.tla", "kind_free_text": "calls recorded from the real code judged by TLC against the P-specs (property level) and the M-specs (mechanism level)",
         "serves_properties": sorted(pipelines.PROPS)},
    ],
    "checks": [],
    "not_applicable": [],
    "notes": "All checks: ./check <id> [--tier quick|thorough]; VERIF_SEED / VERIF_TIER honoured; exit 2 = tool error. See DESIGN.md.",
}
for pid in ALL:
    if pid in pipelines.PROPS:
        p = pipelines.PROPS[pid]
        m["checks"].append({
            "property_id": pid,
            "quick_cmd": "./check %s --tier quick" % pid,
            "thorough_cmd": "./check %s --tier thorough" % pid,
            "evidence_file": "/verif/evidence/%s.json" % pid,
            "replay_cmd_template": "./check %s --replay {path}" % pid,
            "engine": "tlc-e1+replay-e2+trace-e3",
            "level_claimed": {"category": p["level"], "text": level_text(pid, p), "design_ref": p.get("design_ref", "DESIGN.md sections 0.6 and 5 (" + pid + ")")},
            "level_note": p.get("level_note", "; ".join(p.get("assumptions", []))),
            "technique": p.get("technique", "explicit TLA+ specification model-checked with TLC; conformance by replaying TLC-generated transitions in the real code and validating recorded calls against the TLA+ property spec"),
        })
    else:
        m["not_applicable"].append({"property_id": pid, "reason": pipelines.NOT_APPLICABLE.get(pid, "check not built yet in this round")})
json.dump(m, open(os.path.join(ROOT, "MANIFEST.json"), "w"), indent=1)
print("MANIFEST.json: %d checks, %d not applicable" % (len(m["checks"]), len(m["not_applicable"])))
