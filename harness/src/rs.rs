//! ReservoirSampling under test; items are stream positions, randomness is scripted.
use crate::common::*;
use pdatastructs::reservoirsampling::ReservoirSampling;
use serde_json::{json, Value};

type RS = ReservoirSampling<u64, ScriptRng>;

#[derive(Clone)]
pub struct RsSut {
    pub r: RS,
    pub k: usize,
    pub n: u64,
    // pending gap (C05 gap clause): the unit value that determined it, the index whose p was used, the base index
    pub gap_u: (u64, u64),
    pub gap_gi: u64,
    pub gap_base: u64,
    pub skipcap: u64,
}
fn unit52_of(a: u64, b: u64) -> u64 {
    // u' = a/b in (0,1]  ->  raw = 1 - u'  ->  m = raw * 2^52
    let raw = 1.0 - (a as f64) / (b as f64);
    let m = (raw * (1u64 << 52) as f64).round() as i64;
    m.clamp(0, (1i64 << 52) - 1) as u64
}
fn intents(script: &Value) -> (Vec<Intent>, Vec<(u64, u64)>) {
    let mut out = vec![];
    let mut units = vec![];
    if let Some(a) = script.as_array() {
        for x in a {
            if let Some(b) = x.get("below") {
                out.push(Intent::Below(b[0].as_u64().unwrap(), b[1].as_u64().unwrap()));
            } else if let Some(b) = x.get("unitcell") {
                let (aa, bb) = (b[0].as_u64().unwrap(), b[1].as_u64().unwrap());
                out.push(Intent::Unit52(unit52_of(aa, bb)));
                units.push((aa, bb));
            } else if let Some(b) = x.get("raw") {
                let w = if let Some(s) = b.as_str() { s.parse().unwrap() } else { b.as_u64().unwrap() };
                out.push(Intent::Raw(w));
            }
        }
    }
    (out, units)
}
thread_local! { static GAP_PATTERN: std::cell::Cell<Option<bool>> = std::cell::Cell::new(None); }
/// Does the code consume the scripted draws of an accepted gap-phase add the way the mechanism spec says (first gap,
/// next gap, slot)?  Probed once on a sampler with k = 4 at the phase switch: the three typed draws must be consumed
/// exactly and the four scripted slot draws must lead to four different reservoirs.  ScriptRng cannot see which
/// distribution a word is wanted for, so with another order of draws the scripted unit value would not be the one the
/// code turned into its gap, and the deterministic gap clause of C05 (P_Reservoir) must not be evaluated.
pub fn gap_pattern_ok() -> bool {
    if let Some(v) = GAP_PATTERN.with(|g| g.get()) {
        return v;
    }
    let k = 4usize;
    let t = 4 * k;
    let v = guarded(|| {
        let mut r = RS::new(k, ScriptRng);
        for n in 0..t {
            script_load(&[Intent::Below(n as u64, n as u64 + 1)]);
            r.add(n as u64);
        }
        let mut posts = std::collections::HashSet::new();
        for j in 0..k as u64 {
            let mut c = r.clone();
            script_load(&[Intent::Unit52(0), Intent::Unit52(unit52_of(63, 64)), Intent::Below(j, k as u64)]);
            c.add(t as u64);
            let (left, mm, consumed) = script_status();
            if left != 0 || mm.is_some() || consumed != 3 || !c.reservoir().iter().any(|x| *x == t as u64) || !posts.insert(c.reservoir().clone()) {
                return false;
            }
        }
        true
    })
    .unwrap_or(false);
    script_load(&[]);
    GAP_PATTERN.with(|g| g.set(Some(v)));
    v
}
impl Sut for RsSut {
    fn config(&self) -> Value {
        json!([self.r.k()])
    }
    const TAG: &'static str = "rs";
    fn new(cfg: &Value) -> Self {
        let k = cfg["kk"].as_u64().unwrap() as usize;
        RsSut { r: RS::new(k, ScriptRng), k, n: 0, gap_u: (0, 1), gap_gi: 0, gap_base: 0, skipcap: cfg["skipcap"].as_u64().unwrap_or(u64::MAX) }
    }
    fn uid(&self) -> usize {
        self.k
    }
    fn header(&self) -> Value {
        json!({"kk": self.k})
    }
    fn is_alt_worthy(rec: &Value) -> bool {
        rec["res"] == "cleared"
    }
    fn apply(&mut self, op: &Value, _other: Option<&Self>) -> Value {
        let name = op["name"].as_str().unwrap();
        let (ints, units) = intents(&op["script"]);
        let skip = op["skip"].as_bool().unwrap_or(false);
        let mut rec = json!({});
        let n_pre = self.n;
        let res_pre = if skip { vec![] } else { self.r.reservoir().clone() };
        let twin = if skip { None } else { Some(self.r.clone()) };
        let res: String = match name {
            "add" => {
                script_load(&ints);
                script_fallback(Some(op["fallback"].as_u64().unwrap_or(0)));
                let item = self.n;
                let r = guarded(|| self.r.add(item));
                let (left, _mm, consumed) = script_status();
                script_load(&[]);
                match r {
                    Ok(()) => {
                        self.n += 1;
                        rec["rng_words"] = json!(consumed);
                        rec["script_left"] = json!(left);
                        // bookkeeping for the gap clause (observed acceptance, scripted unit values)
                        let t = 4 * self.k as u64;
                        let accepted = self.r.reservoir().iter().any(|x| *x == item);
                        if !skip && gap_pattern_ok() {
                            rec["gap"] = json!({"u": [self.gap_u.0, self.gap_u.1], "gi": self.gap_gi, "base": self.gap_base});
                        }
                        if item >= t {
                            if item == t {
                                if accepted && units.len() >= 2 {
                                    self.gap_u = units[1];
                                    self.gap_gi = item;
                                    self.gap_base = item + 1;
                                } else if !accepted && !units.is_empty() {
                                    self.gap_u = units[0];
                                    self.gap_gi = item;
                                    self.gap_base = item;
                                } else {
                                    self.gap_u = (0, 1);
                                }
                            } else if accepted {
                                if !units.is_empty() {
                                    self.gap_u = units[0];
                                    self.gap_gi = item;
                                    self.gap_base = item + 1;
                                } else {
                                    self.gap_u = (0, 1);
                                }
                            }
                        }
                        "ok".into()
                    }
                    Err(m) => {
                        rec["panic"] = json!(m);
                        "panic".into()
                    }
                }
            }
            "ext" => {
                // Extend::extend with `count` further stream positions, through iterators whose size hints are exact
                // (a range), an over-estimate (a filtered longer range) or absent (from_fn): adding n items one way
                // or the other must be the same thing
                let count = op["count"].as_u64().unwrap_or(0);
                let (a, b) = (self.n, self.n + count);
                script_load(&[]);
                script_fallback(Some(op["fallback"].as_u64().unwrap_or(1)));
                let kind = op["hint"].as_str().unwrap_or("exact").to_string();
                let r = guarded(|| match kind.as_str() {
                    "over" => self.r.extend((a..b + 5).filter(move |x| *x < b)),
                    "none" => {
                        let mut x = a;
                        self.r.extend(std::iter::from_fn(move || if x < b { x += 1; Some(x - 1) } else { None }))
                    }
                    _ => self.r.extend(a..b),
                });
                script_load(&[]);
                match r {
                    Ok(()) => {
                        self.n = b;
                        self.gap_u = (0, 1);
                        "ok".into()
                    }
                    Err(m) => {
                        rec["panic"] = json!(m);
                        "panic".into()
                    }
                }
            }
            "clear" => match guarded(|| self.r.clear()) {
                Ok(()) => {
                    self.n = 0;
                    self.gap_u = (0, 1);
                    "cleared".into()
                }
                Err(m) => {
                    rec["panic"] = json!(m);
                    "panic".into()
                }
            },
            _ => panic!("tool error: unknown op {}", name),
        };
        if skip && res != "panic" {
            return json!({"skip": true});
        }
        rec["res"] = json!(res);
        rec["n_pre"] = json!(n_pre);
        rec["res_pre"] = json!(res_pre);
        rec["w"] = json!(op["w"].as_u64().unwrap_or(1));
        if res != "panic" {
            rec["res_post"] = json!(self.r.reservoir());
            rec["i_post"] = json!(self.r.i());
            rec["empty_post"] = json!(self.r.is_empty());
        }
        if let Some(t) = twin {
            rec["twin_ok"] = json!(t.reservoir() == &res_pre && t.i() as u64 == n_pre);
        }
        rec
    }
    fn mstate(&self) -> Value {
        json!({"i": self.r.i(), "skip": (self.r.verif_skip_until() as u64).min(self.skipcap), "res": self.r.reservoir()})
    }
}

/// E3 driver: k in {1,2,3,10,100}, n up to --max-n, pseudo-random raw words and extreme words
/// (all zeros, all ones, alternating); records at the phase boundaries and sampled prefixes.
/// A second family (small k) scripts unit values on a dyadic grid for the C05 gap clause.
pub fn drive(args: &[String]) {
    let seed = arg_u64(args, "--seed", 1);
    let n_sc = arg_u64(args, "--scenarios", 20);
    let max_n = arg_u64(args, "--max-n", 3000);
    let mut out = Out::create(arg(args, "--out").expect("--out"));
    let mut rng = Prng::new(seed ^ 0x7e5);
    for sci in 0..n_sc {
        let mut steps: Vec<Value> = vec![];
        if sci % 2 == 0 {
            let k = [1u64, 2, 3, 10, 64, 100][rng.below(6) as usize];
            let n = (4 * k + 10 + rng.below(max_n)).min(max_n.max(4 * k + 10));
            let mode = rng.below(5);
            // one scenario in two starts with an Extend::extend during the fill-up phase (ending before, at, or past k)
            let mut i0 = 0u64;
            if rng.chance(1, 2) {
                let count = rng.below(k + 3);
                let hint = ["exact", "over", "none"][rng.below(3) as usize];
                steps.push(json!({"obj": "a", "op": {"name":"ext","count": count, "hint": hint, "fallback": rng.next()}}));
                i0 = count;
            }
            for i in i0..n {
                let words: Vec<Value> = (0..3)
                    .map(|_| {
                        let w = match mode {
                            0 => 0u64,
                            1 => u64::MAX,
                            2 => if i % 2 == 0 { 0 } else { u64::MAX },
                            _ => rng.next(),
                        };
                        json!({"raw": w.to_string()})
                    })
                    .collect();
                let fb = match mode { 0 => 0u64, 1 => u64::MAX, _ => rng.next() };
                let record = i <= k + 2 || (i + 3 >= 4 * k && i <= 4 * k + 3) || i % 997 == 0 || i + 1 == n || n <= 200;
                steps.push(json!({"obj": "a", "op": {"name":"add","script": words, "fallback": fb, "skip": !record}}));
                if rng.below(if n <= 400 { 60 } else { 4000 }) == 0 {
                    steps.push(json!({"obj": "a", "op": {"name":"clear"}}));
                    if rng.chance(1, 2) {
                        let hint = ["exact", "over", "none"][rng.below(3) as usize];
                        steps.push(json!({"obj": "a", "op": {"name":"ext","count": rng.below(k + 3), "hint": hint, "fallback": rng.next()}}));
                    }
                }
            }
            out.put(&json!({"sc": sci, "cfg": {"kk": k}, "steps": steps}));
        } else {
            // gap clause: small k, scripted unit values a/64 (ties excluded by TLC: they cannot occur for these a with i+1 <= 16)
            let k = 1 + rng.below(3);
            let n = 4 * k + 12 + rng.below(6);
            for i in 0..n {
                let script: Vec<Value> = if i < k {
                    vec![]
                } else if i < 4 * k {
                    vec![json!({"below": [rng.below(i + 1), i + 1]})]
                } else {
                    // small values too: long gaps (beyond the horizon the clause can compute: the items up to it must all be skipped)
                    let us = [63u64, 61, 57, 52, 47, 40, 36, 33, 25, 17, 9, 3, 1];
                    let u0 = us[rng.below(13) as usize];
                    let u1 = us[rng.below(13) as usize];
                    if i == 4 * k {
                        vec![json!({"unitcell": [u0, 64]}), json!({"unitcell": [u1, 64]}), json!({"below": [rng.below(k), k]})]
                    } else {
                        vec![json!({"unitcell": [u0, 64]}), json!({"below": [rng.below(k), k]})]
                    }
                };
                steps.push(json!({"obj": "a", "op": {"name":"add","script": script}}));
            }
            out.put(&json!({"sc": sci, "cfg": {"kk": k}, "steps": steps}));
        }
    }
    out.flush();
    println!("STATS {}", json!({"scenarios": n_sc}));
}

/// C05 exact distribution: the table of draws of the REAL sampler, explored over its own states.
/// Breadth first over the distinct real states (reservoir, i, skip_until) reached after n adds, n = k .. 4k+1;
/// in every state every outcome of the add's draws is executed on a clone:
///   k <= n < 4k : one uniform draw over n+1 values (`Below(j, n+1)`), weight 1 each;
///   n = 4k      : the first gap from each of the 4k+1 equiprobable unit cells; the code itself decides whether
///                 the item is accepted; accepted: k slot draws of weight 1, skipped: one row of weight k.
/// Nothing here presupposes WHICH slot or item the code picks, only the call pattern of the mechanism spec; if the
/// code asks for randomness the script does not provide (or consumes the typed draws of the switch differently),
/// the table stops at that level and the pipeline does not evaluate the exact-distribution clause from there on
/// (reported as drift, never as a verdict).
pub fn dist(args: &[String]) {
    let k = arg_u64(args, "--k", 1) as usize;
    let mut out = Out::create(arg(args, "--out").expect("--out"));
    let t = 4 * k;
    let mu = (4 * k + 1) as u64;
    let key = |r: &RS| (r.reservoir().clone(), r.i(), r.verif_skip_until());
    let mut r0 = RS::new(k, ScriptRng);
    script_load(&[]);
    let mut rows: Vec<Value> = vec![];
    let mut tid = 0u64;
    // fill-up phase: no draw, one row of weight 1 per add
    for x in 0..k {
        let res_pre = r0.reservoir().clone();
        r0.add(x as u64);
        tid += 1;
        rows.push(json!({"k":"row","tid":tid,"n_pre":x,"res_pre":res_pre,"res_post":r0.reservoir(),"w":1}));
    }
    let mut frontier: Vec<RS> = vec![r0];
    let mut complete_upto = k as u64; // rows complete for every n_pre < complete_upto
    let mut deviation = Value::Null;
    let mut states = 1u64;
    'levels: for n in k..=t {
        let mut next: Vec<RS> = vec![];
        let mut seen = std::collections::HashSet::new();
        let mut level_rows: Vec<Value> = vec![];
        for st in &frontier {
            let res_pre = st.reservoir().clone();
            // (script, expected words if the item is accepted, expected words if it is skipped)
            let mut cases: Vec<(Vec<Intent>, u64)> = vec![];
            if n < t {
                for j in 0..=(n as u64) {
                    cases.push((vec![Intent::Below(j, n as u64 + 1)], 1));
                }
            } else {
                for c in 0..mu {
                    for j in 0..(k as u64) {
                        cases.push((vec![Intent::Unit52(unit52_of(2 * c + 1, 2 * mu)), Intent::Unit52(unit52_of(63, 64)), Intent::Below(j, k as u64)], 3));
                    }
                }
            }
            let mut skip_cell = u64::MAX;
            let mut cur_cell = u64::MAX;
            let mut cell_posts: std::collections::HashSet<Vec<u64>> = std::collections::HashSet::new();
            for (ci, (script, words_if_accepted)) in cases.iter().enumerate() {
                let cell = if n < t { u64::MAX - 1 } else { ci as u64 / k as u64 };
                if cell == skip_cell {
                    continue; // the item was skipped for this cell: a single row of weight k stands for the k slot draws
                }
                if cell != cur_cell {
                    cur_cell = cell;
                    cell_posts.clear();
                }
                let mut c = st.clone();
                script_load(script);
                note_call(json!({"rsdist": {"k": k, "n": n, "case": ci}}));
                let r = guarded(|| c.add(n as u64));
                let (left, mm, consumed) = script_status();
                script_load(&[]);
                let accepted = c.reservoir().iter().any(|x| *x == n as u64);
                // plain level: the code may not ask for more randomness than the one scripted draw (an unscripted word
                // would make the outcome depend on something the table does not enumerate); asking for LESS is no
                // deviation - no earlier level handed out an unscripted word either, so the outcome is then simply
                // deterministic and the table says so.  Switch level: the three typed draws must be consumed exactly
                // (ScriptRng cannot see which distribution a word is wanted for).
                let pattern_ok = r.is_ok() && mm.is_none()
                    && if n < t { consumed <= 1 } else if accepted { consumed == *words_if_accepted && left == 0 } else { consumed == 1 && left == 2 };
                if !pattern_ok {
                    deviation = json!({"n": n, "case": ci, "panic": r.err(), "mismatch": mm, "words": consumed, "left": left, "accepted": accepted});
                    break 'levels;
                }
                // the k slot draws of one accepted cell must lead to k different reservoirs; if they do not, the code did
                // not use the scripted slot draw as the slot (other order of draws: ScriptRng cannot see which
                // distribution a word is wanted for) and the weights of the table would be meaningless
                if n == t && accepted && !cell_posts.insert(c.reservoir().clone()) {
                    deviation = json!({"n": n, "case": ci, "why": "the k slot draws of one cell do not lead to k different reservoirs", "words": consumed, "left": left, "accepted": accepted});
                    break 'levels;
                }
                let w = if n == t && !accepted { skip_cell = cell; k as u64 } else { 1 };
                tid += 1;
                level_rows.push(json!({"k":"row","tid":tid,"n_pre":n,"res_pre":res_pre,"res_post":c.reservoir(),"w":w}));
                if seen.insert(key(&c)) {
                    next.push(c);
                }
            }
        }
        rows.extend(level_rows);
        complete_upto = n as u64 + 1;
        states += next.len() as u64;
        frontier = next;
    }
    out.put(&json!({"k":"hdr","kk":k,"tmax":complete_upto.saturating_sub(1)}));
    for r in &rows {
        out.put(r);
    }
    out.flush();
    println!("STATS {}", json!({"rows": rows.len(), "states": states, "levels_complete": complete_upto, "deviation": deviation, "gap_pattern_ok": gap_pattern_ok()}));
}

/// C05 measured clause (gross, deterministic for a given seed): inclusion counts per stream position over `runs`
/// independently seeded ChaCha samplers, for (k, n) in the exact regime (n <= 4k+1) and a few in the gap regime.
pub fn freq(args: &[String]) {
    use rand::SeedableRng;
    use rand_chacha::ChaChaRng;
    let seed = arg_u64(args, "--seed", 1);
    let runs = arg_u64(args, "--runs", 3000);
    let thorough = args.iter().any(|a| a == "--thorough");
    let mut out = Out::create(arg(args, "--out").expect("--out"));
    out.put(&json!({"k":"hdr","s":"rsfreq"}));
    let mut grid: Vec<(usize, usize)> = vec![(1, 2), (1, 4), (1, 5), (2, 3), (2, 8), (2, 9), (3, 13), (5, 6), (5, 21), (16, 17), (16, 64), (16, 65),
                                             (16, 80), (16, 96), (64, 257), (64, 320), (64, 384)];
    if thorough {
        grid.extend([(1, 3), (2, 5), (3, 4), (3, 12), (4, 17), (8, 9), (8, 32), (8, 33), (8, 48), (32, 129), (32, 160), (32, 192), (64, 65), (64, 256), (100, 401), (100, 600)]);
    }
    let mut tid = 0u64;
    let base_runs = runs;
    let mut total_runs = 0u64;
    for (k, n) in grid {
        tid += 1;
        // small k: the switch item's probability is off by a relative 1/(4k) under realistic slips, which takes many more
        // runs to separate from noise at 6 sigma
        let runs = if k <= 5 { 6 * base_runs } else { base_runs };
        total_runs += runs;
        note_call(json!({"rsfreq": {"k": k, "n": n}}));
        let r = guarded(|| {
            let mut counts = vec![0u64; n];
            let mut sizes_ok = true;
            for run in 0..runs {
                let mut s = [0u8; 32];
                s[..8].copy_from_slice(&(seed.wrapping_mul(1_000_003).wrapping_add(run)).to_le_bytes());
                s[8..16].copy_from_slice(&((k as u64) << 32 | n as u64).to_le_bytes());
                let mut smp = pdatastructs::reservoirsampling::ReservoirSampling::<u64, ChaChaRng>::new(k, ChaChaRng::from_seed(s));
                for x in 0..n as u64 {
                    smp.add(x);
                }
                sizes_ok &= smp.reservoir().len() == k.min(n);
                for x in smp.reservoir() {
                    counts[*x as usize] += 1;
                }
            }
            (counts, sizes_ok)
        });
        match r {
            Ok((counts, sizes_ok)) => out.put(&json!({"k":"p","s":"rsfreq","tid":tid,"sc":tid,"kk":k,"n":n,"runs":runs,"counts":counts,"sizes_ok":sizes_ok,"res":"ok"})),
            Err(m) => out.put(&json!({"k":"p","s":"rsfreq","tid":tid,"sc":tid,"kk":k,"n":n,"runs":runs,"counts":[],"sizes_ok":false,"res":"panic","panic":m})),
        }
    }
    out.flush();
    println!("STATS {}", json!({"cases": tid, "runs": base_runs, "total_runs": total_runs}));
}
