//! ReservoirSampling under test; items are stream positions, randomness is scripted.
use crate::common::*;
use pdatastructs::reservoirsampling::ReservoirSampling;
use serde_json::{json, Value};

type RS = ReservoirSampling<u64, ScriptRng>;

#[derive(Clone)]
pub struct RsSut {
    pub r: RS,
    pub k: usize,
    pub n: u64,
    // pending gap (C05 gap clause): the unit value that determined it, the index whose p was used, the base index
    pub gap_u: (u64, u64),
    pub gap_gi: u64,
    pub gap_base: u64,
    pub skipcap: u64,
}
fn unit52_of(a: u64, b: u64) -> u64 {
    // u' = a/b in (0,1]  ->  raw = 1 - u'  ->  m = raw * 2^52
    let raw = 1.0 - (a as f64) / (b as f64);
    let m = (raw * (1u64 << 52) as f64).round() as i64;
    m.clamp(0, (1i64 << 52) - 1) as u64
}
fn intents(script: &Value) -> (Vec<Intent>, Vec<(u64, u64)>) {
    let mut out = vec![];
    let mut units = vec![];
    if let Some(a) = script.as_array() {
        for x in a {
            if let Some(b) = x.get("below") {
                out.push(Intent::Below(b[0].as_u64().unwrap(), b[1].as_u64().unwrap()));
            } else if let Some(b) = x.get("unitcell") {
                let (aa, bb) = (b[0].as_u64().unwrap(), b[1].as_u64().unwrap());
                out.push(Intent::Unit52(unit52_of(aa, bb)));
                units.push((aa, bb));
            } else if let Some(b) = x.get("raw") {
                let w = if let Some(s) = b.as_str() { s.parse().unwrap() } else { b.as_u64().unwrap() };
                out.push(Intent::Raw(w));
            }
        }
    }
    (out, units)
}
impl Sut for RsSut {
    fn config(&self) -> Value {
        json!([self.r.k()])
    }
    const TAG: &'static str = "rs";
    fn new(cfg: &Value) -> Self {
        let k = cfg["kk"].as_u64().unwrap() as usize;
        RsSut { r: RS::new(k, ScriptRng), k, n: 0, gap_u: (0, 1), gap_gi: 0, gap_base: 0, skipcap: cfg["skipcap"].as_u64().unwrap_or(u64::MAX) }
    }
    fn uid(&self) -> usize {
        self.k
    }
    fn header(&self) -> Value {
        json!({"kk": self.k})
    }
    fn is_alt_worthy(rec: &Value) -> bool {
        rec["res"] == "cleared"
    }
    fn apply(&mut self, op: &Value, _other: Option<&Self>) -> Value {
        let name = op["name"].as_str().unwrap();
        let (ints, units) = intents(&op["script"]);
        let skip = op["skip"].as_bool().unwrap_or(false);
        let mut rec = json!({});
        let n_pre = self.n;
        let res_pre = if skip { vec![] } else { self.r.reservoir().clone() };
        let twin = if skip { None } else { Some(self.r.clone()) };
        let res: String = match name {
            "add" => {
                script_load(&ints);
                script_fallback(Some(op["fallback"].as_u64().unwrap_or(0)));
                let item = self.n;
                let r = guarded(|| self.r.add(item));
                let (left, _mm, consumed) = script_status();
                script_load(&[]);
                match r {
                    Ok(()) => {
                        self.n += 1;
                        rec["rng_words"] = json!(consumed);
                        rec["script_left"] = json!(left);
                        // bookkeeping for the gap clause (observed acceptance, scripted unit values)
                        let t = 4 * self.k as u64;
                        let accepted = self.r.reservoir().iter().any(|x| *x == item);
                        if !skip {
                            rec["gap"] = json!({"u": [self.gap_u.0, self.gap_u.1], "gi": self.gap_gi, "base": self.gap_base});
                        }
                        if item >= t {
                            if item == t {
                                if accepted && units.len() >= 2 {
                                    self.gap_u = units[1];
                                    self.gap_gi = item;
                                    self.gap_base = item + 1;
                                } else if !accepted && !units.is_empty() {
                                    self.gap_u = units[0];
                                    self.gap_gi = item;
                                    self.gap_base = item;
                                } else {
                                    self.gap_u = (0, 1);
                                }
                            } else if accepted {
                                if !units.is_empty() {
                                    self.gap_u = units[0];
                                    self.gap_gi = item;
                                    self.gap_base = item + 1;
                                } else {
                                    self.gap_u = (0, 1);
                                }
                            }
                        }
                        "ok".into()
                    }
                    Err(m) => {
                        rec["panic"] = json!(m);
                        "panic".into()
                    }
                }
            }
            "clear" => match guarded(|| self.r.clear()) {
                Ok(()) => {
                    self.n = 0;
                    self.gap_u = (0, 1);
                    "cleared".into()
                }
                Err(m) => {
                    rec["panic"] = json!(m);
                    "panic".into()
                }
            },
            _ => panic!("tool error: unknown op {}", name),
        };
        if skip && res != "panic" {
            return json!({"skip": true});
        }
        rec["res"] = json!(res);
        rec["n_pre"] = json!(n_pre);
        rec["res_pre"] = json!(res_pre);
        rec["w"] = json!(op["w"].as_u64().unwrap_or(1));
        if res != "panic" {
            rec["res_post"] = json!(self.r.reservoir());
            rec["i_post"] = json!(self.r.i());
            rec["empty_post"] = json!(self.r.is_empty());
        }
        if let Some(t) = twin {
            rec["twin_ok"] = json!(t.reservoir() == &res_pre && t.i() as u64 == n_pre);
        }
        rec
    }
    fn mstate(&self) -> Value {
        json!({"i": self.r.i(), "skip": (self.r.verif_skip_until() as u64).min(self.skipcap), "res": self.r.reservoir()})
    }
}

/// E3 driver: k in {1,2,3,10,100}, n up to --max-n, pseudo-random raw words and extreme words
/// (all zeros, all ones, alternating); records at the phase boundaries and sampled prefixes.
/// A second family (small k) scripts unit values on a dyadic grid for the C05 gap clause.
pub fn drive(args: &[String]) {
    let seed = arg_u64(args, "--seed", 1);
    let n_sc = arg_u64(args, "--scenarios", 20);
    let max_n = arg_u64(args, "--max-n", 3000);
    let mut out = Out::create(arg(args, "--out").expect("--out"));
    let mut rng = Prng::new(seed ^ 0x7e5);
    for sci in 0..n_sc {
        let mut steps: Vec<Value> = vec![];
        if sci % 2 == 0 {
            let k = [1u64, 2, 3, 10, 64, 100][rng.below(6) as usize];
            let n = (4 * k + 10 + rng.below(max_n)).min(max_n.max(4 * k + 10));
            let mode = rng.below(5);
            for i in 0..n {
                let words: Vec<Value> = (0..3)
                    .map(|_| {
                        let w = match mode {
                            0 => 0u64,
                            1 => u64::MAX,
                            2 => if i % 2 == 0 { 0 } else { u64::MAX },
                            _ => rng.next(),
                        };
                        json!({"raw": w.to_string()})
                    })
                    .collect();
                let fb = match mode { 0 => 0u64, 1 => u64::MAX, _ => rng.next() };
                let record = i <= k + 2 || (i + 3 >= 4 * k && i <= 4 * k + 3) || i % 997 == 0 || i + 1 == n || n <= 200;
                steps.push(json!({"obj": "a", "op": {"name":"add","script": words, "fallback": fb, "skip": !record}}));
                if rng.below(if n <= 400 { 60 } else { 4000 }) == 0 {
                    steps.push(json!({"obj": "a", "op": {"name":"clear"}}));
                }
            }
            out.put(&json!({"sc": sci, "cfg": {"kk": k}, "steps": steps}));
        } else {
            // gap clause: small k, scripted unit values a/64 (ties excluded by TLC: they cannot occur for these a with i+1 <= 16)
            let k = 1 + rng.below(3);
            let n = 4 * k + 6 + rng.below(4);
            for i in 0..n {
                let script: Vec<Value> = if i < k {
                    vec![]
                } else if i < 4 * k {
                    vec![json!({"below": [rng.below(i + 1), i + 1]})]
                } else {
                    let us = [63u64, 61, 57, 52, 47, 40, 36, 33];
                    let u0 = us[rng.below(8) as usize];
                    let u1 = us[rng.below(8) as usize];
                    if i == 4 * k {
                        vec![json!({"unitcell": [u0, 64]}), json!({"unitcell": [u1, 64]}), json!({"below": [rng.below(k), k]})]
                    } else {
                        vec![json!({"unitcell": [u0, 64]}), json!({"below": [rng.below(k), k]})]
                    }
                };
                steps.push(json!({"obj": "a", "op": {"name":"add","script": script}}));
            }
            out.put(&json!({"sc": sci, "cfg": {"kk": k}, "steps": steps}));
        }
    }
    out.flush();
    println!("STATS {}", json!({"scenarios": n_sc}));
}
