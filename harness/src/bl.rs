//! BloomFilter (and the HashSet reference implementation of Filter) under test.
use crate::common::*;
use pdatastructs::filters::bloomfilter::BloomFilter;
use pdatastructs::filters::Filter;
use pdatastructs::hash_utils::HashIterBuilder;
use serde_json::{json, Value};
use std::cell::RefCell;
use std::collections::{BTreeSet, HashMap, HashSet};
use std::rc::Rc;

type BF = BloomFilter<u64, CtlBH>;

pub struct Universe {
    pub m: usize,
    pub k: usize,
    pub bh: CtlBH,
    pub keys: Vec<u64>,
    /// position vector of every key, from the code's own HashIterBuilder
    pub pv: Vec<Vec<usize>>,
    pub by_h: HashMap<(usize, usize), Vec<usize>>,
}
thread_local! { static UCACHE: RefCell<HashMap<String, Rc<Universe>>> = RefCell::new(HashMap::new()); }

fn posvec(m: usize, k: usize, bh: &CtlBH, key: u64) -> Vec<usize> {
    HashIterBuilder::new(m, k, bh.clone()).iter_for(&key).collect()
}

pub fn learn_fs(m: usize, k: usize, bh: &CtlBH) -> Vec<u64> {
    let b = HashIterBuilder::new(m, k, bh.clone());
    (0..k).map(|i| b.f(i)).collect()
}

fn build_universe(cfg: &Value) -> Rc<Universe> {
    let ck = cfg.to_string();
    if let Some(u) = UCACHE.with(|c| c.borrow().get(&ck).cloned()) {
        return u;
    }
    let m = cfg["m"].as_u64().unwrap() as usize;
    let k = cfg["kh"].as_u64().or(cfg["k"].as_u64()).unwrap() as usize;
    let u = if let Some(ks) = cfg["keys"].as_array() {
        let bh = CtlBH::from_json(&cfg["hasher"]);
        let keys: Vec<u64> = ks.iter().map(|x| x.as_u64().unwrap()).collect();
        let pv = keys.iter().map(|&x| posvec(m, k, &bh, x)).collect();
        Universe { m, k, bh, keys, pv, by_h: HashMap::new() }
    } else {
        let want: Vec<u64> = cfg["fs"].as_array().unwrap().iter().map(|x| x.as_u64().unwrap()).collect();
        let reps = cfg["reps"].as_u64().unwrap_or(2) as usize;
        let mut bh = None;
        for seed in 0..200000u64 {
            let c = CtlBH::mix(seed);
            if learn_fs(m, k, &c) == want {
                bh = Some(c);
                break;
            }
        }
        let bh = bh.unwrap_or_else(|| probe_failed("no hasher seed realises the requested shift vector"));
        let fs = learn_fs(m, k, &bh);
        let mut by_h: HashMap<(usize, usize), Vec<usize>> = HashMap::new();
        let mut keys = vec![];
        let mut pvs = vec![];
        let need = m * m * reps;
        let mut have = 0;
        let mut key = 0u64;
        while have < need && key < 1_000_000 {
            key += 1;
            let pv = posvec(m, k, &bh, key);
            let h1 = (pv[0] + m - (fs[0] as usize % m)) % m;
            let h2s: Vec<usize> = if k >= 2 && m > 1 {
                vec![(pv[1] + 2 * m - h1 - (fs[1] as usize % m)) % m]
            } else {
                (0..m).collect() // h2 does not influence the positions: the key realises every h2
            };
            for h2 in h2s {
                let v = by_h.entry((h1, h2)).or_default();
                if v.len() < reps {
                    v.push(keys.len());
                    have += 1;
                }
            }
            keys.push(key);
            pvs.push(pv);
        }
        if have < need {
            probe_failed("key search did not realise every (h1, h2) pair of the hashing model");
        }
        Universe { m, k, bh, keys, pv: pvs, by_h }
    };
    let u = Rc::new(u);
    UCACHE.with(|c| c.borrow_mut().insert(ck, u.clone()));
    u
}

#[derive(Clone)]
pub struct BlSut {
    pub f: BF,
    pub u: Rc<Universe>,
    pub ghost: BTreeSet<usize>,
}
impl BlSut {
    fn key_index(&self, op: &Value) -> usize {
        if let Some(k) = op["key"].as_u64() {
            k as usize
        } else {
            let h1 = op["h1"].as_u64().unwrap() as usize;
            let h2 = op["h2"].as_u64().unwrap() as usize;
            let rep = op["rep"].as_u64().unwrap_or(0) as usize;
            let v = &self.u.by_h[&(h1, h2)];
            v[rep % v.len()]
        }
    }
    fn qt_of(&self, f: &BF) -> Vec<usize> {
        (0..self.u.keys.len()).filter(|&i| f.query(&self.u.keys[i])).map(|i| i + 1).collect()
    }
}
fn ids(s: &BTreeSet<usize>) -> Vec<usize> {
    s.iter().map(|c| c + 1).collect()
}
impl Sut for BlSut {
    fn config(&self) -> Value {
        json!([self.f.m(), self.f.k()])
    }
    const TAG: &'static str = "bl";
    fn new(cfg: &Value) -> Self {
        let u = build_universe(cfg);
        BlSut { f: BF::with_params_and_hash(u.m, u.k, u.bh.clone()), u, ghost: BTreeSet::new() }
    }
    fn uid(&self) -> usize {
        Rc::as_ptr(&self.u) as usize
    }
    fn header(&self) -> Value {
        json!({"m": self.u.m, "kh": self.u.k, "nkeys": self.u.keys.len(), "exact": false,
               "keys": self.u.keys.iter().map(|k| k.to_string()).collect::<Vec<_>>(), "hasher": self.u.bh.to_json().to_string()})
    }
    fn apply(&mut self, op: &Value, other: Option<&Self>) -> Value {
        let ghost_pre = ids(&self.ghost);
        let (len_pre, empty_pre, qt_pre) = (self.f.len(), self.f.is_empty(), self.qt_of(&self.f));
        let twin = self.f.clone();
        let name = op["name"].as_str().unwrap();
        let mut rec = json!({});
        let res: String = match name {
            "ins" => {
                let ki = self.key_index(op);
                let key = self.u.keys[ki];
                rec["key"] = json!(ki + 1);
                rec["margs"] = json!({"pv": self.u.pv[ki]});
                match guarded(|| self.f.insert(&key)) {
                    Ok(Ok(r)) => {
                        self.ghost.insert(ki);
                        if r { "new".into() } else { "known".into() }
                    }
                    Ok(Err(_)) => "full".into(),
                    Err(m) => {
                        rec["panic"] = json!(m);
                        "panic".into()
                    }
                }
            }
            "clear" => match guarded(|| self.f.clear()) {
                Ok(()) => {
                    self.ghost.clear();
                    "cleared".into()
                }
                Err(m) => {
                    rec["panic"] = json!(m);
                    "panic".into()
                }
            },
            "union" => {
                let o = other.expect("union needs other");
                let o_before = (o.qt_of(&o.f), o.f.len(), o.f.verif_bits());
                rec["ghost_other"] = json!(ids(&o.ghost));
                // reference: a fresh filter of the same configuration that receives A's stream, then B's
                let mut reff = BF::with_params_and_hash(self.u.m, self.u.k, self.u.bh.clone());
                for k in self.ghost.iter().chain(o.ghost.iter()) {
                    let _ = reff.insert(&self.u.keys[*k]);
                }
                rec["ref_qt"] = json!(self.qt_of(&reff));
                rec["ref_len"] = json!(reff.len());
                rec["ref_empty"] = json!(reff.is_empty());
                let r = guarded(|| self.f.union(&o.f));
                rec["other_same"] = json!(o_before == (o.qt_of(&o.f), o.f.len(), o.f.verif_bits()));
                match r {
                    Ok(Ok(())) => {
                        for c in &o.ghost {
                            self.ghost.insert(*c);
                        }
                        "ok".into()
                    }
                    Ok(Err(_)) => "full".into(),
                    Err(m) => {
                        rec["panic"] = json!(m);
                        "panic".into()
                    }
                }
            }
            _ => panic!("tool error: unknown op {}", name),
        };
        rec["res"] = json!(res);
        rec["ghost_pre"] = json!(ghost_pre);
        rec["ghost_post"] = json!(ids(&self.ghost));
        rec["len_pre"] = json!(len_pre);
        rec["empty_pre"] = json!(empty_pre);
        rec["qt_pre"] = json!(qt_pre);
        if res != "panic" {
            rec["len_post"] = json!(self.f.len());
            rec["empty_post"] = json!(self.f.is_empty());
            rec["qt_post"] = json!(self.qt_of(&self.f));
        }
        rec["twin_ok"] = json!(self.qt_of(&twin) == qt_pre && twin.len() == len_pre && twin.is_empty() == empty_pre);
        rec
    }
    fn mstate(&self) -> Value {
        let ones: HashSet<usize> = self.f.verif_bits().into_iter().collect();
        json!({"bits": (0..self.u.m).map(|i| if ones.contains(&i) { 1 } else { 0 }).collect::<Vec<u8>>()})
    }
}

// ---------------------------------------------------------------------------------------------
// std::collections::HashSet through the Filter trait (compat.rs): the reference implementation
#[derive(Clone)]
pub struct HsSut {
    pub f: HashSet<u64, CtlBH>,
    pub keys: Rc<Vec<u64>>,
    pub ghost: BTreeSet<usize>,
}
type HS = HashSet<u64, CtlBH>;
impl HsSut {
    fn qt_of(&self, f: &HS) -> Vec<usize> {
        (0..self.keys.len()).filter(|&i| <HS as Filter<u64>>::query(f, &self.keys[i])).map(|i| i + 1).collect()
    }
}
impl Sut for HsSut {
    const TAG: &'static str = "hs";
    fn new(cfg: &Value) -> Self {
        let keys: Vec<u64> = cfg["keys"].as_array().unwrap().iter().map(|x| x.as_u64().unwrap()).collect();
        HsSut { f: HashSet::with_hasher(CtlBH::from_json(&cfg["hasher"])), keys: Rc::new(keys), ghost: BTreeSet::new() }
    }
    fn uid(&self) -> usize {
        Rc::as_ptr(&self.keys) as usize
    }
    fn header(&self) -> Value {
        json!({"nkeys": self.keys.len(), "exact": true})
    }
    fn apply(&mut self, op: &Value, other: Option<&Self>) -> Value {
        let ghost_pre = ids(&self.ghost);
        let (len_pre, empty_pre, qt_pre) =
            (<HS as Filter<u64>>::len(&self.f), <HS as Filter<u64>>::is_empty(&self.f), self.qt_of(&self.f));
        let twin = self.f.clone();
        let name = op["name"].as_str().unwrap();
        let mut rec = json!({});
        let res: String = match name {
            "ins" => {
                let ki = op["key"].as_u64().unwrap() as usize;
                let key = self.keys[ki];
                rec["key"] = json!(ki + 1);
                match guarded(|| <HS as Filter<u64>>::insert(&mut self.f, &key)) {
                    Ok(Ok(r)) => {
                        self.ghost.insert(ki);
                        if r { "new".into() } else { "known".into() }
                    }
                    Ok(Err(_)) => "full".into(),
                    Err(m) => {
                        rec["panic"] = json!(m);
                        "panic".into()
                    }
                }
            }
            "clear" => match guarded(|| <HS as Filter<u64>>::clear(&mut self.f)) {
                Ok(()) => {
                    self.ghost.clear();
                    "cleared".into()
                }
                Err(m) => {
                    rec["panic"] = json!(m);
                    "panic".into()
                }
            },
            "union" => {
                let o = other.expect("union needs other");
                let o_before = self.qt_of(&o.f);
                rec["ghost_other"] = json!(ids(&o.ghost));
                let mut reff: HS = HashSet::with_hasher(self.f.hasher().clone());
                for k in self.ghost.iter().chain(o.ghost.iter()) {
                    let _ = <HS as Filter<u64>>::insert(&mut reff, &self.keys[*k]);
                }
                rec["ref_qt"] = json!(self.qt_of(&reff));
                rec["ref_len"] = json!(<HS as Filter<u64>>::len(&reff));
                rec["ref_empty"] = json!(<HS as Filter<u64>>::is_empty(&reff));
                let r = guarded(|| <HS as Filter<u64>>::union(&mut self.f, &o.f));
                rec["other_same"] = json!(o_before == self.qt_of(&o.f));
                match r {
                    Ok(Ok(())) => {
                        for c in &o.ghost {
                            self.ghost.insert(*c);
                        }
                        "ok".into()
                    }
                    Ok(Err(_)) => "full".into(),
                    Err(m) => {
                        rec["panic"] = json!(m);
                        "panic".into()
                    }
                }
            }
            _ => panic!("tool error: unknown op {}", name),
        };
        rec["res"] = json!(res);
        rec["ghost_pre"] = json!(ghost_pre);
        rec["ghost_post"] = json!(ids(&self.ghost));
        rec["len_pre"] = json!(len_pre);
        rec["empty_pre"] = json!(empty_pre);
        rec["qt_pre"] = json!(qt_pre);
        if res != "panic" {
            rec["len_post"] = json!(<HS as Filter<u64>>::len(&self.f));
            rec["empty_post"] = json!(<HS as Filter<u64>>::is_empty(&self.f));
            rec["qt_post"] = json!(self.qt_of(&self.f));
        }
        rec["twin_ok"] = json!(self.qt_of(&twin) == qt_pre);
        rec
    }
    fn mstate(&self) -> Value {
        json!(ids(&self.ghost))
    }
}

/// E3 drivers for both: random insert/union/clear scenarios over tracked keys.
pub fn drive(args: &[String], hashset: bool) {
    let seed = arg_u64(args, "--seed", 1);
    let n_sc = arg_u64(args, "--scenarios", 20);
    let mut out = Out::create(arg(args, "--out").expect("--out"));
    let mut rng = Prng::new(seed ^ 0xb100);
    for sci in 0..n_sc {
        let m = match rng.below(5) {
            0 => 1 + rng.below(8),
            1 => 8 + rng.below(60),
            2 => 64,
            3 => 65 + rng.below(1000),
            _ => 1 << (10 + rng.below(7)),
        } as usize;
        let kmax = if rng.chance(1, 4) { 12 } else { 4 };
        let k = (1 + rng.below(kmax)) as usize;
        let bh = match rng.below(3) {
            0 => CtlBH::mix(rng.next()),
            1 => CtlBH::collide(rng.next(), 1 + rng.below(6) as u32),
            _ => CtlBH::identity(),
        };
        let nkeys = 12 + rng.below(9) as usize;
        let mut keys: Vec<u64> = vec![];
        while keys.len() < nkeys {
            let x = match rng.below(7) { 0..=2 => rng.below(40), 3 => boundary_key(&mut rng), _ => rng.next() };
            if !keys.contains(&x) {
                keys.push(x);
            }
        }
        let cfg = if hashset { json!({"hasher": bh.to_json(), "keys": keys}) } else { json!({"m": m, "k": k, "hasher": bh.to_json(), "keys": keys}) };
        let mut steps: Vec<Value> = vec![];
        // one scenario in three opens with the motif "content arrives by union only" (see cms.rs)
        if sci % 3 == 1 {
            steps.push(json!({"obj": "b", "op": {"name":"ins","key": 0}}));
            steps.push(json!({"obj": "b", "op": {"name":"ins","key": 1}}));
            steps.push(json!({"obj": "a", "other": "b", "op": {"name":"union"}}));
            steps.push(json!({"obj": "a", "op": {"name":"clear"}}));
            steps.push(json!({"obj": "a", "op": {"name":"ins","key": 2}}));
            steps.push(json!({"obj": "a", "other": "b", "op": {"name":"union"}}));
            steps.push(json!({"obj": "a", "op": {"name":"clear"}}));
            steps.push(json!({"obj": "a", "other": "b", "op": {"name":"union"}}));
        }
        for _ in 0..(15 + rng.below(50)) {
            let x = rng.below(100);
            let obj = ["a", "b", "c"][rng.below(3) as usize];
            if x < 70 {
                steps.push(json!({"obj": obj, "op": {"name":"ins","key": rng.below(nkeys as u64)}}));
            } else if x < 92 {
                let o2 = ["a", "b", "c"][rng.below(3) as usize];
                steps.push(json!({"obj": obj, "other": o2, "op": {"name":"union"}}));
            } else {
                steps.push(json!({"obj": obj, "op": {"name":"clear"}}));
            }
        }
        out.put(&json!({"sc": sci, "cfg": cfg, "steps": steps}));
    }
    out.flush();
    println!("STATS {}", json!({"scenarios": n_sc}));
}

pub fn learn(args: &[String]) {
    let m = arg_u64(args, "--m", 3) as usize;
    let k = arg_u64(args, "--k", 2) as usize;
    let n = arg_u64(args, "--n", 3);
    let seed0 = arg_u64(args, "--seed", 1);
    let mut seen: Vec<Vec<u64>> = vec![];
    let mut s = seed0 * 1000;
    while (seen.len() as u64) < n && s < seed0 * 1000 + 100000 {
        let fs = learn_fs(m, k, &CtlBH::mix(s));
        if !seen.contains(&fs) {
            seen.push(fs);
        }
        s += 1;
    }
    println!("STATS {}", json!({"fs": seen}));
}
