//! QuotientFilter under test.
use crate::common::*;
use pdatastructs::filters::quotientfilter::QuotientFilter;
use pdatastructs::filters::Filter;
use serde_json::{json, Value};
use std::collections::BTreeSet;
use std::rc::Rc;

type QF = QuotientFilter<u64, CtlBH>;

pub struct Universe {
    pub q: usize,
    pub r: usize,
    pub bh: CtlBH,
    pub keys: Vec<u64>,
    /// M-level fingerprint id (quotient * 2^r + remainder) learned through the hook
    pub fp: Vec<u64>,
    /// observational class: index of the first universe key k' such that a filter holding only
    /// k' reports k present (the property's own definition of "indistinguishable")
    pub cls: Vec<usize>,
    /// for small models: keys by (fp, rep)
    pub by_fp: Vec<Vec<usize>>,
}

#[derive(Clone)]
pub struct QfSut {
    pub f: QF,
    pub u: Rc<Universe>,
    pub ghost: BTreeSet<usize>,
}

fn fresh(q: usize, r: usize, bh: &CtlBH) -> QF {
    QF::with_params_and_hash(q, r, bh.clone())
}

fn learn_fp(q: usize, r: usize, bh: &CtlBH, key: u64) -> u64 {
    let mut f = fresh(q, r, bh);
    f.insert(&key).unwrap();
    let sl = f.verif_slots();
    for (i, s) in sl.iter().enumerate() {
        if s.0 {
            return ((i as u64) << r) | s.3;
        }
    }
    probe_failed("probe insert left no occupied slot");
}

pub fn build_universe(cfg: &Value) -> Universe {
    let q = cfg["q"].as_u64().unwrap() as usize;
    let r = cfg["r"].as_u64().unwrap() as usize;
    let bh = CtlBH::from_json(&cfg["hasher"]);
    let mut keys: Vec<u64> = vec![];
    let mut by_fp: Vec<Vec<usize>> = vec![];
    if let Some(ks) = cfg["keys"].as_array() {
        keys = ks.iter().map(|k| k.as_u64().unwrap()).collect();
    } else {
        // small model: two representatives per fingerprint, differing in the ignored hash bits
        let nfp = 1u64 << (q + r);
        let reps = cfg["reps"].as_u64().unwrap_or(2) as usize;
        by_fp = vec![vec![]; nfp as usize];
        let mut cand = 0u64;
        let mut found = 0usize;
        let mut rng = Prng::new(cfg["seed"].as_u64().unwrap_or(1));
        while found < (nfp as usize) * reps && cand < nfp * 64 {
            // candidates: low bits enumerate, high bits random junk (identity hasher) / anything (mix)
            let key = if q + r < 64 { (cand & (nfp - 1)) | ((rng.next() | (1 << 63)) << (q + r)) } else { cand };
            let key = if cand < nfp { cand } else { key };
            cand += 1;
            let fp = learn_fp(q, r, &bh, key) as usize;
            if fp < by_fp.len() && by_fp[fp].len() < reps && !keys.contains(&key) {
                by_fp[fp].push(keys.len());
                keys.push(key);
                found += 1;
            }
        }
        if found < (nfp as usize) * reps {
            probe_failed("key search did not realise all fingerprints");
        }
    }
    let fp: Vec<u64> = keys.iter().map(|&k| learn_fp(q, r, &bh, k)).collect();
    // observational classes
    let mut cls = vec![usize::MAX; keys.len()];
    for i in 0..keys.len() {
        if cls[i] != usize::MAX {
            continue;
        }
        let mut f = fresh(q, r, &bh);
        f.insert(&keys[i]).unwrap();
        for j in i..keys.len() {
            if cls[j] == usize::MAX && f.query(&keys[j]) {
                cls[j] = i;
            }
        }
        if cls[i] == usize::MAX {
            cls[i] = i; // a filter that does not report its own key: judged by the P-spec (C01)
        }
    }
    Universe { q, r, bh, keys, fp, cls, by_fp }
}

impl QfSut {
    fn key_index(&self, op: &Value) -> usize {
        if let Some(k) = op["key"].as_u64() {
            k as usize
        } else {
            let fp = op["fp"].as_u64().unwrap() as usize;
            let rep = op["rep"].as_u64().unwrap_or(0) as usize;
            let v = &self.u.by_fp[fp];
            v[rep % v.len()]
        }
    }
    fn qt(&self) -> Vec<usize> {
        (0..self.u.keys.len()).filter(|&i| self.f.query(&self.u.keys[i])).collect()
    }
}

impl Sut for QfSut {
    fn config(&self) -> Value {
        json!([self.f.bits_quotient(), self.f.bits_remainder()])
    }
    const TAG: &'static str = "qf";
    fn new(cfg: &Value) -> Self {
        let u = Rc::new(build_universe(cfg));
        QfSut { f: fresh(u.q, u.r, &u.bh), u, ghost: BTreeSet::new() }
    }
    fn header(&self) -> Value {
        json!({"q": self.u.q, "r": self.u.r, "cap": 1u64 << self.u.q, "nkeys": self.u.keys.len(),
               "cls": self.u.cls.iter().map(|c| c + 1).collect::<Vec<_>>(),
               "keys": self.u.keys.iter().map(|k| k.to_string()).collect::<Vec<_>>(),
               "hasher": self.u.bh.to_json().to_string()})
    }
    fn apply(&mut self, op: &Value, other: Option<&Self>) -> Value {
        let ghost_pre: Vec<usize> = self.ghost.iter().map(|c| c + 1).collect();
        let (len_pre, empty_pre, qt_pre) = (self.f.len(), self.f.is_empty(), self.qt());
        // clone independence (C19): a clone taken now must answer like the original ...
        let twin = self.f.clone();
        let twin_qt: Vec<usize> = (0..self.u.keys.len()).filter(|&i| twin.query(&self.u.keys[i])).collect();
        let twin_same_pre = twin_qt == qt_pre && twin.len() == len_pre && twin.is_empty() == empty_pre;
        let name = op["name"].as_str().unwrap();
        let mut rec = json!({});
        let res: String = match name {
            "ins" => {
                let ki = self.key_index(op);
                let key = self.u.keys[ki];
                rec["key"] = json!(ki + 1);
                rec["cls"] = json!(self.u.cls[ki] + 1);
                rec["margs"] = json!({"fp": self.u.fp[ki]});
                match guarded(|| self.f.insert(&key)) {
                    Ok(Ok(true)) => {
                        self.ghost.insert(self.u.cls[ki]);
                        "new".into()
                    }
                    Ok(Ok(false)) => {
                        self.ghost.insert(self.u.cls[ki]);
                        "known".into()
                    }
                    Ok(Err(_)) => "full".into(),
                    Err(m) => {
                        rec["panic"] = json!(m);
                        "panic".into()
                    }
                }
            }
            "clear" => match guarded(|| self.f.clear()) {
                Ok(()) => {
                    self.ghost.clear();
                    "cleared".into()
                }
                Err(m) => {
                    rec["panic"] = json!(m);
                    "panic".into()
                }
            },
            "union" => {
                let o = other.expect("union needs other");
                let o_before = (o.qt(), o.f.len());
                rec["ghost_other"] = json!(o.ghost.iter().map(|c| c + 1).collect::<Vec<_>>());
                let r = guarded(|| self.f.union(&o.f));
                rec["other_same"] = json!(o_before == (o.qt(), o.f.len()));
                match r {
                    Ok(Ok(())) => {
                        for c in &o.ghost {
                            self.ghost.insert(*c);
                        }
                        "ok".into()
                    }
                    Ok(Err(_)) => "full".into(),
                    Err(m) => {
                        rec["panic"] = json!(m);
                        "panic".into()
                    }
                }
            }
            _ => panic!("tool error: unknown op {}", name),
        };
        rec["res"] = json!(res);
        rec["ghost_pre"] = json!(ghost_pre);
        rec["ghost_post"] = json!(self.ghost.iter().map(|c| c + 1).collect::<Vec<_>>());
        rec["len_pre"] = json!(len_pre);
        rec["empty_pre"] = json!(empty_pre);
        rec["qt_pre"] = json!(qt_pre.iter().map(|c| c + 1).collect::<Vec<_>>());
        if res != "panic" {
            rec["len_post"] = json!(self.f.len());
            rec["empty_post"] = json!(self.f.is_empty());
            rec["qt_post"] = json!(self.qt().iter().map(|c| c + 1).collect::<Vec<_>>());
        }
        // ... and must not be affected by the mutation of the original
        let twin_qt2: Vec<usize> = (0..self.u.keys.len()).filter(|&i| twin.query(&self.u.keys[i])).collect();
        rec["twin_ok"] = json!(twin_same_pre && twin_qt2 == qt_pre && twin.len() == len_pre);
        rec
    }
    fn mstate(&self) -> Value {
        let sl: Vec<u64> = self
            .f
            .verif_slots()
            .iter()
            .map(|s| s.3.saturating_mul(8).saturating_add((s.0 as u64) + 2 * (s.1 as u64) + 4 * (s.2 as u64)))
            .collect();
        json!({"sl": sl, "n": self.f.len()})
    }
}

/// E3 driver: random / structured scenarios on larger parameters; writes the scenarios
/// (ndjson, one per line) so that `vh scenario qf` executes them.
pub fn drive(args: &[String]) {
    let seed = arg_u64(args, "--seed", 1);
    let n_sc = arg_u64(args, "--scenarios", 20);
    let max_q = arg_u64(args, "--max-q", 8);
    let mut out = Out::create(arg(args, "--out").expect("--out"));
    let mut rng = Prng::new(seed);
    for sci in 0..n_sc {
        let q = 1 + rng.below(max_q) as usize;
        let r = match rng.below(6) {
            0 => 1,
            1 => 1 + rng.below(4) as usize,
            2 => (64 - q).min(1 + rng.below(63) as usize),
            3 => 64 - q,
            _ => 1 + rng.below(8) as usize,
        };
        // hasher: identity, mix, or collision-forcing
        let bh = match rng.below(4) {
            0 => CtlBH::identity(),
            1 => CtlBH::mix(rng.next()),
            2 => CtlBH::collide(rng.next(), (q + r) as u32),
            _ => CtlBH::collide(rng.next(), (q + r).min(q + 2) as u32),
        };
        // the first scenarios pin the extreme widths (q + r = 64 and 63, one-bit remainder) with boundary hash values
        // (identity hasher: the key IS the hash)
        let (q, r, bh) = match sci {
            0 => (1usize, 63usize, CtlBH::identity()),
            1 => (2, 61, CtlBH::identity()),
            2 => (3, 61, CtlBH::identity()),
            3 => (2, 1, CtlBH::identity()),
            _ => (q, r, bh),
        };
        let cap = 1u64 << q;
        // tracked keys: 12..20, drawn so that collisions (same quotient, same fingerprint) happen
        let nkeys = (12 + rng.below(9)).min(4 * cap + 8) as usize;
        let mut keys: Vec<u64> = if sci < 4 { vec![u64::MAX, u64::MAX - 1, 1 << 63, (1 << 63) - 1, (1 << 62) + 5, 0, 1, 2] } else { vec![] };
        let nkeys = nkeys.max(keys.len() + 2);
        while keys.len() < nkeys {
            let k = match rng.below(4) {
                0 => rng.below(cap << r.min(8)),                               // small fingerprints
                1 => if rng.chance(1, 3) { boundary_key(&mut rng) } else { rng.next() },   // anything, boundary hash values included
                2 if !keys.is_empty() => {
                    // same fingerprint as an existing key, different ignored bits (identity hasher)
                    let b = keys[rng.below(keys.len() as u64) as usize];
                    if q + r < 64 { (b & ((1u64 << (q + r)) - 1)) | (rng.next() << (q + r)) } else { b }
                }
                _ if !keys.is_empty() => {
                    // same quotient neighbourhood
                    let b = keys[rng.below(keys.len() as u64) as usize];
                    b ^ (rng.below(4) << r.min(60)) ^ rng.below(1 << r.min(3))
                }
                _ => rng.next(),
            };
            if !keys.contains(&k) {
                keys.push(k);
            }
        }
        let cfg = json!({"q": q, "r": r, "hasher": bh.to_json(), "keys": keys});
        let mut steps: Vec<Value> = vec![];
        // one scenario in three opens with the motif "content arrives by union only" (see cms.rs)
        if sci % 3 == 2 {
            steps.push(json!({"obj": "b", "op": {"name":"ins","key": 0}}));
            steps.push(json!({"obj": "b", "op": {"name":"ins","key": 1}}));
            steps.push(json!({"obj": "a", "other": "b", "op": {"name":"union"}}));
            steps.push(json!({"obj": "a", "op": {"name":"clear"}}));
            steps.push(json!({"obj": "a", "op": {"name":"ins","key": 2}}));
            steps.push(json!({"obj": "a", "other": "b", "op": {"name":"union"}}));
            steps.push(json!({"obj": "a", "op": {"name":"clear"}}));
            steps.push(json!({"obj": "a", "other": "b", "op": {"name":"union"}}));
        }
        let n_ops = 20 + rng.below(60);
        for _ in 0..n_ops {
            let x = rng.below(100);
            let obj = if rng.chance(1, 3) { "b" } else { "a" };
            if x < 80 {
                steps.push(json!({"obj": obj, "op": {"name":"ins","key": rng.below(nkeys as u64)}}));
            } else if x < 92 {
                let (a, b) = if rng.chance(1, 2) { ("a", "b") } else { ("b", "a") };
                steps.push(json!({"obj": a, "other": b, "op": {"name":"union"}}));
            } else if x < 95 {
                steps.push(json!({"obj": obj, "other": obj, "op": {"name":"union"}}));
            } else {
                steps.push(json!({"obj": obj, "op": {"name":"clear"}}));
            }
        }
        out.put(&json!({"sc": sci, "cfg": cfg, "steps": steps}));
    }
    out.flush();
    println!("STATS {}", json!({"scenarios": n_sc}));
}
