//! CMSHeap under test.  The embedded sketch is fixed to the default (SipHash) hasher, so the
//! abstract base hashes (h1, h2) of the model's elements are realised by key search.
use crate::common::*;
use pdatastructs::countminsketch::CountMinSketch;
use pdatastructs::hash_utils::HashIterBuilder;
use pdatastructs::topk::cmsheap::CMSHeap;
use serde_json::{json, Value};
use std::collections::hash_map::DefaultHasher;
use std::hash::BuildHasherDefault;
use std::rc::Rc;

type BHD = BuildHasherDefault<DefaultHasher>;
fn posvec(w: usize, d: usize, key: u64) -> Vec<usize> {
    HashIterBuilder::new(w, d, BHD::default()).iter_for(&key).collect()
}
pub fn learn_fs(w: usize, d: usize) -> Vec<u64> {
    let b = HashIterBuilder::new(w, d, BHD::default());
    (0..d).map(|i| b.f(i)).collect()
}
fn h12(w: usize, d: usize, fs: &[u64], pv: &[usize]) -> (usize, Option<usize>) {
    let h1 = (pv[0] + w - (fs[0] as usize % w)) % w;
    if d >= 2 && w > 1 {
        (h1, Some((pv[1] + 2 * w - h1 - (fs[1] as usize % w)) % w))
    } else {
        (h1, None)
    }
}

pub struct Universe {
    pub k: usize,
    pub w: usize,
    pub d: usize,
    pub keys: Vec<u64>, // element e (1-based) -> key; strictly increasing so that tie-breaking matches
}

#[derive(Clone)]
pub struct HeapSut {
    pub h: CMSHeap<u64>,
    pub u: Rc<Universe>,
    pub ghost: Vec<u64>,
    pub hh: Value,
}
impl HeapSut {
    fn elem_of(&self, key: u64) -> usize {
        self.u.keys.iter().position(|k| *k == key).map(|i| i + 1).unwrap_or(0)
    }
    fn iter_of(&self, h: &CMSHeap<u64>) -> Vec<usize> {
        h.iter().map(|k| self.elem_of(k)).collect()
    }
}
impl Sut for HeapSut {
    fn config(&self) -> Value {
        json!([self.h.k()])
    }
    const TAG: &'static str = "heap";
    fn new(cfg: &Value) -> Self {
        let k = cfg["kk"].as_u64().unwrap() as usize;
        let w = cfg["w"].as_u64().unwrap() as usize;
        let d = cfg["d"].as_u64().unwrap() as usize;
        let keys: Vec<u64> = if let Some(ks) = cfg["keys"].as_array() {
            ks.iter().map(|x| x.as_u64().unwrap()).collect()
        } else {
            let fs = learn_fs(w, d);
            let mut keys = vec![];
            let mut next = 1u64;
            for want in cfg["hh"].as_array().unwrap() {
                let (w1, w2) = (want[0].as_u64().unwrap() as usize, want[1].as_u64().unwrap() as usize);
                loop {
                    let (a, b) = h12(w, d, &fs, &posvec(w, d, next));
                    next += 1;
                    if a == w1 && b.map(|x| x == w2).unwrap_or(true) {
                        keys.push(next - 1);
                        break;
                    }
                    if next > 10_000_000 {
                        probe_failed("key search for CMSHeap element failed");
                    }
                }
            }
            keys
        };
        let n = keys.len();
        HeapSut { h: CMSHeap::new(k, CountMinSketch::with_params(w, d)), u: Rc::new(Universe { k, w, d, keys }), ghost: vec![0; n],
                  hh: cfg["hh"].clone() }
    }
    fn uid(&self) -> usize {
        Rc::as_ptr(&self.u) as usize
    }
    fn header(&self) -> Value {
        json!({"kk": self.u.k, "w": self.u.w, "d": self.u.d, "ne": self.u.keys.len(),
               "keys": self.u.keys.iter().map(|k| k.to_string()).collect::<Vec<_>>()})
    }
    fn is_alt_worthy(rec: &Value) -> bool {
        rec["res"] == "cleared"
    }
    fn apply(&mut self, op: &Value, _other: Option<&Self>) -> Value {
        let name = op["name"].as_str().unwrap();
        if op["skip"].as_bool().unwrap_or(false) {
            let e = op["e"].as_u64().unwrap() as usize;
            let key = self.u.keys[e - 1];
            if guarded(|| self.h.add(key)).is_ok() {
                self.ghost[e - 1] += 1;
                return json!({"skip": true});
            }
        }
        let ghost_pre = self.ghost.clone();
        let iter_pre = self.iter_of(&self.h);
        let empty_pre = self.h.is_empty();
        let twin = self.h.clone();
        let mut rec = json!({});
        let res: String = match name {
            "add" => {
                let e = op["e"].as_u64().unwrap() as usize;
                let key = self.u.keys[e - 1];
                rec["elem"] = json!(e);
                match guarded(|| self.h.add(key)) {
                    Ok(()) => {
                        self.ghost[e - 1] += 1;
                        "ok".into()
                    }
                    Err(m) => {
                        rec["panic"] = json!(m);
                        "panic".into()
                    }
                }
            }
            "clear" => match guarded(|| self.h.clear()) {
                Ok(()) => {
                    for g in self.ghost.iter_mut() {
                        *g = 0;
                    }
                    "cleared".into()
                }
                Err(m) => {
                    rec["panic"] = json!(m);
                    "panic".into()
                }
            },
            _ => panic!("tool error: unknown op {}", name),
        };
        rec["res"] = json!(res);
        rec["ghost_pre"] = json!(ghost_pre);
        rec["ghost_post"] = json!(self.ghost);
        rec["iter_pre"] = json!(iter_pre);
        if res != "panic" {
            rec["iter_post"] = json!(self.iter_of(&self.h));
            rec["empty_post"] = json!(self.h.is_empty());
            let cms = self.h.verif_cms();
            rec["est_post"] = json!(self.u.keys.iter().map(|k| cms.query_point(k)).collect::<Vec<_>>());
        }
        rec["twin_ok"] = json!(self.iter_of(&twin) == iter_pre && twin.is_empty() == empty_pre);
        rec
    }
    fn mstate(&self) -> Value {
        let (map, tree) = self.h.verif_entries();
        let t: Vec<usize> = self.h.verif_cms().verif_table();
        let rows: Vec<Vec<usize>> = (0..self.u.d).map(|r| t[r * self.u.w..(r + 1) * self.u.w].to_vec()).collect();
        let mut o2c = vec![0usize; self.u.keys.len()];
        for (k, c) in map {
            let e = self.elem_of(k);
            if e > 0 {
                o2c[e - 1] = c;
            }
        }
        let mut tr: Vec<(usize, usize)> = tree.iter().map(|(k, c)| (*c, self.elem_of(*k))).collect();
        tr.sort();
        json!({"t": rows, "o2c": o2c, "tree": tr, "hh": self.hh})
    }
}

/// E3 driver: k from 1 to 20, sketches from 1x1 to wide, alphabets with ties, every prefix of
/// short streams and sampled prefixes of long ones.
pub fn drive(args: &[String]) {
    let seed = arg_u64(args, "--seed", 1);
    let n_sc = arg_u64(args, "--scenarios", 20);
    let max_n = arg_u64(args, "--max-n", 400);
    let mut out = Out::create(arg(args, "--out").expect("--out"));
    let mut rng = Prng::new(seed ^ 0x4ea9);
    for sci in 0..n_sc {
        let k = [1u64, 1, 2, 3, 5, 10, 20][rng.below(7) as usize];
        let (w, d) = match rng.below(5) {
            0 => (1, 1),
            1 => (1 + rng.below(3), 1 + rng.below(3)),
            2 => (2 + rng.below(6), 1 + rng.below(4)),
            3 => (64, 4),
            _ => (272, 3),
        };
        let ne = (k + 1 + rng.below(30)).min(40);
        let mut keys: Vec<u64> = vec![];
        let mut x = rng.below(1000);
        for _ in 0..ne {
            x += 1 + rng.below(1 << 20);
            keys.push(x);
        }
        let cfg = json!({"kk": k, "w": w, "d": d, "keys": keys});
        let n = 20 + rng.below(max_n);
        let shape = rng.below(3);
        let mut steps: Vec<Value> = vec![];
        for i in 0..n {
            let e = match shape {
                0 => 1 + rng.below(ne),
                1 => 1 + (rng.below(ne) * rng.below(ne)) / ne, // skewed towards small indices
                _ => 1 + (i % ne),                             // ties everywhere
            };
            let record = n <= 120 || i < 40 || i % 13 == 0 || i + 1 == n;
            steps.push(json!({"obj": "a", "op": {"name":"add","e": e.max(1).min(ne), "skip": !record}}));
            if rng.below(if n <= 150 { 40 } else { 500 }) == 0 {
                steps.push(json!({"obj": "a", "op": {"name":"clear"}}));
            }
        }
        out.put(&json!({"sc": sci, "cfg": cfg, "steps": steps}));
    }
    out.flush();
    println!("STATS {}", json!({"scenarios": n_sc}));
}

pub fn learn(args: &[String]) {
    let w = arg_u64(args, "--w", 2) as usize;
    let d = arg_u64(args, "--d", 2) as usize;
    println!("STATS {}", json!({"fs": [learn_fs(w, d)]}));
}
