//! HyperLogLog under test (register state machine, serde).
use crate::common::*;
use pdatastructs::hyperloglog::HyperLogLog;
use serde_json::{json, Value};
use std::collections::BTreeSet;

type H = HyperLogLog<u64, CtlBH>;

pub fn limbs(h: u64) -> Vec<u64> {
    vec![(h >> 48) & 0xffff, (h >> 32) & 0xffff, (h >> 16) & 0xffff, h & 0xffff]
}
pub fn from_limbs(v: &Value) -> u64 {
    let a = v.as_array().unwrap();
    a.iter().fold(0u64, |acc, x| (acc << 16) | x.as_u64().unwrap())
}

#[derive(Clone)]
pub struct HllSut {
    pub s: H,
    pub b: usize,
    pub ghost: BTreeSet<u64>,
}
fn sparse(s: &H) -> Vec<(usize, u8)> {
    s.registers().iter().enumerate().filter(|(_, v)| **v != 0).map(|(i, v)| (i, *v)).collect()
}
fn ghost_json(g: &BTreeSet<u64>) -> Value {
    json!(g.iter().map(|h| limbs(*h)).collect::<Vec<_>>())
}
impl HllSut {
    fn hash_of(op: &Value) -> u64 {
        if let Some(s) = op["hv"].as_str() {
            s.parse().unwrap()
        } else {
            from_limbs(&op["h"])
        }
    }
}
impl Sut for HllSut {
    fn config(&self) -> Value {
        json!([self.s.b(), self.s.m(), self.s.relative_error().to_bits().to_string()])
    }
    const TAG: &'static str = "hll";
    fn new(cfg: &Value) -> Self {
        let b = cfg["b"].as_u64().unwrap() as usize;
        HllSut { s: H::with_hash(b, CtlBH::identity()), b, ghost: BTreeSet::new() }
    }
    fn uid(&self) -> usize {
        self.b
    }
    fn header(&self) -> Value {
        json!({"b": self.b})
    }
    fn is_alt_worthy(rec: &Value) -> bool {
        rec["res"] == "cleared"
    }
    fn apply(&mut self, op: &Value, other: Option<&Self>) -> Value {
        let ghost_pre = ghost_json(&self.ghost);
        let twin = self.s.clone();
        let pre_regs = self.s.registers().to_vec();
        let pre_count = guarded(|| self.s.count()).ok();
        let name = op["name"].as_str().unwrap();
        let mut rec = json!({});
        let mut forms_same = true;
        let res: String = match name {
            "add" => {
                let h = Self::hash_of(op);
                rec["h"] = json!(limbs(h));
                rec["margs"] = json!({"h": limbs(h)});
                let via_add = op["rep"].as_u64().unwrap_or(0) == 1 || op["via_add"].as_bool().unwrap_or(false);
                // the other call form on a clone must give the same registers
                let mut c = self.s.clone();
                let r2 = if via_add { guarded(|| c.add_hashed(h)) } else { guarded(|| c.add(&h)) };
                let r = if via_add { guarded(|| self.s.add(&h)) } else { guarded(|| self.s.add_hashed(h)) };
                forms_same = r2.is_ok() == r.is_ok() && (r.is_err() || c.registers() == self.s.registers());
                match r {
                    Ok(()) => {
                        self.ghost.insert(h);
                        "ok".into()
                    }
                    Err(m) => {
                        rec["panic"] = json!(m);
                        "panic".into()
                    }
                }
            }
            "clear" => match guarded(|| self.s.clear()) {
                Ok(()) => {
                    self.ghost.clear();
                    "cleared".into()
                }
                Err(m) => {
                    rec["panic"] = json!(m);
                    "panic".into()
                }
            },
            "merge" => {
                let o = other.expect("merge needs other");
                let o_before = o.s.registers().to_vec();
                rec["ghost_other"] = ghost_json(&o.ghost);
                let r = guarded(|| self.s.merge(&o.s));
                rec["other_same"] = json!(o_before == o.s.registers());
                match r {
                    Ok(()) => {
                        for c in &o.ghost {
                            self.ghost.insert(*c);
                        }
                        "ok".into()
                    }
                    Err(m) => {
                        rec["panic"] = json!(m);
                        "panic".into()
                    }
                }
            }
            "reconstruct" => {
                // the sketch is replaced by one rebuilt from its own registers, handed over in a vector with spare
                // capacity (as a caller reading bytes from a file would); everything afterwards (adds, merges, clear,
                // round trips) runs on the rebuilt sketch
                let mut v: Vec<u8> = Vec::with_capacity(self.s.registers().len() * 3 + 7);
                v.extend_from_slice(self.s.registers());
                let b = self.b;
                match guarded(|| H::with_registers_and_hash(b, v, CtlBH::identity())) {
                    Ok(s2) => {
                        self.s = s2;
                        "ok".into()
                    }
                    Err(m) => {
                        rec["panic"] = json!(m);
                        "panic".into()
                    }
                }
            }
            "roundtrip" => {
                let r = guarded(|| {
                    let txt = serde_json::to_string(&self.s).unwrap();
                    let mut back: H = match serde_json::from_str(&txt) {
                        Ok(x) => x,
                        Err(_) => return false,
                    };
                    let mut ok = back == self.s && back.b() == self.s.b() && back.registers() == self.s.registers()
                        && back.buildhasher() == self.s.buildhasher() && back.count() == self.s.count();
                    // the same reaction to further adds and merges
                    let mut orig = self.s.clone();
                    for x in [0u64, u64::MAX, 0x1234_5678_9abc_def0, 1 << self.b] {
                        orig.add_hashed(x);
                        back.add_hashed(x);
                        orig.add(&x);
                        back.add(&x);
                    }
                    let mut f = H::with_hash(self.b, CtlBH::identity());
                    f.add_hashed(0xdead_beef_0000_0001);
                    orig.merge(&f);
                    back.merge(&f);
                    ok &= orig == back && orig.count() == back.count();
                    ok
                });
                match r {
                    Ok(okv) => {
                        rec["rt_ok"] = json!(okv);
                        "ok".into()
                    }
                    Err(m) => {
                        rec["panic"] = json!(m);
                        "panic".into()
                    }
                }
            }
            _ => panic!("tool error: unknown op {}", name),
        };
        rec["res"] = json!(res);
        rec["ghost_pre"] = ghost_pre;
        rec["ghost_post"] = ghost_json(&self.ghost);
        if res != "panic" {
            rec["regs_post"] = json!(sparse(&self.s));
            rec["empty_post"] = json!(self.s.is_empty());
            match guarded(|| self.s.count()) {
                Ok(c) => rec["count_post"] = json!(c),
                Err(m) => {
                    rec["panic"] = json!(m);
                    rec["res"] = json!("panic");
                }
            }
            // permuted + duplicated replay of the same set of hashes into a fresh sketch
            let mut f = H::with_hash(self.b, CtlBH::identity());
            let hs: Vec<u64> = self.ghost.iter().rev().cloned().collect();
            let perm = guarded(|| {
                for (i, h) in hs.iter().enumerate() {
                    if i % 2 == 0 {
                        f.add_hashed(*h);
                    } else {
                        f.add(h);
                    }
                }
                for h in hs.iter().rev() {
                    f.add_hashed(*h);
                }
                f.registers() == self.s.registers() && f.count() == self.s.count()
            });
            rec["perm_same"] = json!(perm.unwrap_or(false));
            let recon = guarded(|| H::with_registers_and_hash(self.b, self.s.registers().to_vec(), CtlBH::identity()) == self.s);
            rec["recon_same"] = json!(recon.unwrap_or(false));
        }
        rec["forms_same"] = json!(forms_same);
        rec["twin_ok"] = json!(twin.registers() == &pre_regs[..] && guarded(|| twin.count()).ok() == pre_count);
        rec
    }
    fn mstate(&self) -> Value {
        json!({"reg": self.s.registers()})
    }
}

/// E3 driver: all precisions, boundary and random hashes, merges, clears, round trips.
pub fn drive(args: &[String]) {
    let seed = arg_u64(args, "--seed", 1);
    let n_sc = arg_u64(args, "--scenarios", 20);
    let mut out = Out::create(arg(args, "--out").expect("--out"));
    let mut rng = Prng::new(seed ^ 0x411);
    for sci in 0..n_sc {
        let b = 4 + (sci % 15) as u32;
        let cfg = json!({"b": b});
        let mut steps: Vec<Value> = vec![];
        let mut pool: Vec<u64> = vec![0, u64::MAX, 1, 1 << 63, 1 << b, 1 << (b - 1), (1 << b) - 1, (1 << (b + 1)) | 1, 1 << 62];
        for _ in 0..10 {
            let idx = rng.below(4); // few register indices so that ranks compete
            let top = match rng.below(4) {
                0 => 0u64,
                1 => 1u64 << (b + rng.below(64 - b as u64) as u32),
                2 => rng.next() >> rng.below(40),
                _ => rng.next(),
            };
            pool.push((top & !((1u64 << b) - 1)) | idx);
        }
        // one scenario in three opens with the motif "content arrives by merge only" (see cms.rs)
        if sci % 3 == 1 {
            steps.push(json!({"obj": "b", "op": {"name":"add","hv": pool[2].to_string(), "via_add": false}}));
            steps.push(json!({"obj": "b", "op": {"name":"add","hv": pool[9].to_string(), "via_add": true}}));
            steps.push(json!({"obj": "a", "other": "b", "op": {"name":"merge"}}));
            steps.push(json!({"obj": "a", "op": {"name":"clear"}}));
            steps.push(json!({"obj": "a", "op": {"name":"add","hv": pool[10].to_string(), "via_add": true}}));
            steps.push(json!({"obj": "a", "other": "b", "op": {"name":"merge"}}));
            steps.push(json!({"obj": "a", "op": {"name":"clear"}}));
            steps.push(json!({"obj": "a", "other": "b", "op": {"name":"merge"}}));
        }
        for _ in 0..(15 + rng.below(40)) {
            let x = rng.below(100);
            let obj = ["a", "b"][rng.below(2) as usize];
            if x < 72 {
                let h = pool[rng.below(pool.len() as u64) as usize];
                steps.push(json!({"obj": obj, "op": {"name":"add","hv": h.to_string(), "via_add": rng.chance(1, 2)}}));
            } else if x < 86 {
                let (a, bb) = if rng.chance(1, 2) { ("a", "b") } else { ("b", "a") };
                steps.push(json!({"obj": a, "other": bb, "op": {"name":"merge"}}));
            } else if x < 92 {
                steps.push(json!({"obj": obj, "op": {"name":"roundtrip"}}));
            } else if x < 95 {
                // rebuilt from its registers, then (often) cleared and / or round-tripped
                steps.push(json!({"obj": obj, "op": {"name":"reconstruct"}}));
                if rng.chance(1, 2) {
                    steps.push(json!({"obj": obj, "op": {"name":"clear"}}));
                }
                if rng.chance(2, 3) {
                    steps.push(json!({"obj": obj, "op": {"name":"roundtrip"}}));
                }
            } else {
                steps.push(json!({"obj": obj, "op": {"name":"clear"}}));
            }
        }
        out.put(&json!({"sc": sci, "cfg": cfg, "steps": steps}));
    }
    out.flush();
    println!("STATS {}", json!({"scenarios": n_sc}));
}

// Hashers of different serialised shapes for the round trip (C20: "same b, registers and hasher"): a unit struct
// (serialises to null), a newtype around an optional seed (null or a number), a newtype around a number.
macro_rules! simple_bh {
    ($name:ident, $inner:ty, $seed:expr) => {
        #[derive(Clone, Debug, PartialEq, Eq, serde::Serialize, serde::Deserialize)]
        pub struct $name($inner);
        impl std::hash::BuildHasher for $name {
            type Hasher = std::collections::hash_map::DefaultHasher;
            fn build_hasher(&self) -> Self::Hasher {
                use std::hash::Hasher;
                let mut h = std::collections::hash_map::DefaultHasher::new();
                let f: fn(&$inner) -> u64 = $seed;
                h.write_u64(f(&self.0));
                h
            }
        }
    };
}
#[derive(Clone, Debug, PartialEq, Eq, serde::Serialize, serde::Deserialize)]
pub struct UnitBH;
impl std::hash::BuildHasher for UnitBH {
    type Hasher = std::collections::hash_map::DefaultHasher;
    fn build_hasher(&self) -> Self::Hasher {
        std::collections::hash_map::DefaultHasher::new()
    }
}
simple_bh!(OptBH, Option<u64>, |x| x.unwrap_or(77));
simple_bh!(NumBH, u64, |x| *x);
fn roundtrip_with<B>(b: usize, bh: B, kind: &str, tid: u64) -> Value
where
    B: std::hash::BuildHasher + Clone + Eq + serde::Serialize + serde::de::DeserializeOwned,
{
    let mut s = HyperLogLog::<u64, B>::with_hash(b, bh);
    for x in 0..200u64 {
        s.add(&mix64(x));
    }
    s.add_hashed(0);
    let doc = json!({"k":"doc","form":"map","b": b, "kind": "m", "len": 1u64 << b, "fill": "own", "fields": ["registers","b","buildhasher"], "valid": true, "hasher": kind});
    let mut rec = json!({"k":"p","s":"hllserde","tid":tid,"doc":doc});
    let r = guarded(|| {
        let txt = serde_json::to_string(&s).unwrap();
        serde_json::from_str::<HyperLogLog<u64, B>>(&txt).map(|mut back| {
            let same = back.b() == s.b() && back.registers() == s.registers() && back.buildhasher() == s.buildhasher() && back == s;
            // same reaction to further adds (same hasher state): new elements land in the same registers
            let mut orig = s.clone();
            for x in 1000..1100u64 {
                orig.add(&x);
                back.add(&x);
            }
            (back.b(), back.m(), same && orig.registers() == back.registers())
        })
    });
    match r {
        Err(m) => {
            rec["res"] = json!("panic");
            rec["panic"] = json!(m);
        }
        Ok(Err(_)) => rec["res"] = json!("err"),
        Ok(Ok((gb, gm, same))) => {
            rec["res"] = json!("ok");
            rec["got_b"] = json!(gb);
            rec["got_m"] = json!(gm);
            rec["regs_equal"] = json!(same);
            rec["panicked_uses"] = json!([]);
        }
    }
    rec
}
/// C20: documents generated by TLC (Gen_HLLSerde) are rendered as JSON text, deserialised with
/// serde_json and, when accepted, exercised under catch_unwind.
pub fn serde_docs(args: &[String]) {
    let gen = arg(args, "--gen").expect("--gen");
    let mut out = Out::create(arg(args, "--out").expect("--out"));
    let mut rng = Prng::new(arg_u64(args, "--seed", 1) ^ 0x5e4de);
    let mut n = 0u64;
    out.put(&json!({"k":"hdr","s":"hllserde"}));
    for d in read_json_lines(gen) {
        if d["k"] != "doc" {
            continue;
        }
        n += 1;
        let b = d["b"].as_u64().unwrap();
        let len = d["len"].as_u64().unwrap() as usize;
        let fill = d["fill"].as_str().unwrap_or("zero");
        let regs: Vec<u8> = (0..len)
            .map(|_| match fill {
                "zero" => 0u8,
                "max" => 255u8,
                _ => rng.below(256) as u8,
            })
            .collect();
        let regs_txt = serde_json::to_string(&regs).unwrap();
        let hasher_txt = serde_json::to_string(&CtlBH::identity()).unwrap();
        let seq = d["form"].as_str() == Some("seq");
        let mut parts: Vec<String> = vec![];
        for f in d["fields"].as_array().unwrap() {
            let (name, value) = match f.as_str().unwrap() {
                "registers" => ("registers", regs_txt.clone()),
                "b" => ("b", format!("{}", b)),
                "buildhasher" => ("buildhasher", hasher_txt.clone()),
                "unknown" => ("surprise", "1".to_string()),
                "bneg" => ("b", "-1".to_string()),
                "bstr" => ("b", "\"8\"".to_string()),
                "regstr" => ("registers", "\"abc\"".to_string()),
                other => panic!("tool error: unknown field kind {}", other),
            };
            parts.push(if seq { value } else { format!("\"{}\":{}", name, value) });
        }
        let txt = if seq { format!("[{}]", parts.join(",")) } else { format!("{{{}}}", parts.join(",")) };
        note_call(json!({"doc": d}));
        let mut rec = json!({"k":"p","s":"hllserde","tid":n,"doc":d});
        match guarded(|| serde_json::from_str::<H>(&txt)) {
            Err(m) => {
                rec["res"] = json!("panic");
                rec["panic"] = json!(m);
            }
            Ok(Err(_)) => {
                rec["res"] = json!("err");
            }
            Ok(Ok(mut s)) => {
                rec["res"] = json!("ok");
                rec["got_b"] = json!(s.b().min(1 << 30));
                rec["got_m"] = json!(s.m().min(1 << 30));
                rec["regs_equal"] = json!(s.registers() == &regs[..]);
                let mut uses = vec![];
                let bb = s.b();
                for (nm, r) in [
                    ("count", guarded(|| { s.count(); })),
                    ("add_hashed_0", guarded(|| s.add_hashed(0))),
                    ("add_hashed_max", guarded(|| s.add_hashed(u64::MAX))),
                    ("add", guarded(|| s.add(&12345u64))),
                    ("count2", guarded(|| { s.count(); })),
                    ("merge", guarded(|| { if (4..=18).contains(&bb) { let f = H::with_hash(bb, CtlBH::identity()); s.merge(&f); } })),
                    ("relative_error", guarded(|| { s.relative_error(); })),
                ] {
                    if r.is_err() {
                        uses.push(nm);
                    }
                }
                rec["panicked_uses"] = json!(uses);
            }
        }
        out.put(&rec);
    }
    // round trips of sketches over hashers of other serialised shapes (valid documents written by the library itself)
    let mut extra = 0u64;
    for b in [4usize, 9, 18] {
        for rec in [
            roundtrip_with(b, UnitBH, "unit struct (null)", n + extra + 1),
            roundtrip_with(b, OptBH(None), "newtype of None (null)", n + extra + 2),
            roundtrip_with(b, OptBH(Some(5)), "newtype of Some", n + extra + 3),
            roundtrip_with(b, NumBH(9), "newtype of a number", n + extra + 4),
        ] {
            out.put(&rec);
        }
        extra += 4;
    }
    out.flush();
    println!("STATS {}", json!({"docs": n, "hasher_roundtrips": extra}));
}
