//! CuckooFilter under test.
use crate::common::*;
use pdatastructs::filters::cuckoofilter::CuckooFilter;
use pdatastructs::filters::Filter;
use serde_json::{json, Value};
use std::cell::RefCell;
use std::collections::HashMap;
use std::rc::Rc;

type CF = CuckooFilter<u64, ScriptRng, CtlBH>;

pub struct Universe {
    pub b: usize,
    pub nb: usize,
    pub l: usize,
    pub bh: CtlBH,
    pub keys: Vec<u64>,
    pub f: Vec<u64>,
    pub i1: Vec<usize>,
    pub i2: Vec<usize>,
    /// observational class = index of the first key k' such that a filter holding only k' reports k
    pub cls: Vec<usize>,
    pub by_class: HashMap<(u64, usize), Vec<usize>>,
}

#[derive(Clone)]
pub struct CkSut {
    pub f: CF,
    pub u: Rc<Universe>,
    /// ghost bag, indexed by class representative (key index)
    pub ghost: Vec<i64>,
}

fn fresh(b: usize, nb: usize, l: usize, bh: &CtlBH) -> CF {
    CF::with_params_and_hash(ScriptRng, b, nb, l, bh.clone())
}

/// (fingerprint, first bucket) of a key, read off a fresh filter after one insert
fn learn1(b: usize, nb: usize, l: usize, bh: &CtlBH, key: u64) -> (u64, usize) {
    let mut f = fresh(b, nb, l, bh);
    let _ = f.insert(&key);
    let t = f.verif_table();
    for (x, v) in t.iter().enumerate() {
        if *v != 0 {
            return (*v, x / b);
        }
    }
    // the insert left nothing in the table (or was refused): no fingerprint can be attributed to the key.  The
    // mechanism-level attributes are then meaningless for it (fingerprint 0 = "free slot"), the property level does
    // not use them: it works with the observational classes and judges the calls on this key like any other.
    (0, 0)
}
/// second candidate bucket: fill the first bucket with copies, the next copy lands in i2
fn learn2(b: usize, nb: usize, l: usize, bh: &CtlBH, key: u64, i1: usize) -> usize {
    let mut f = fresh(b, nb, l, bh);
    script_pattern(false, vec![0], b as u64);
    for _ in 0..=b {
        let _ = f.insert(&key);
    }
    let t = f.verif_table();
    for (x, v) in t.iter().enumerate() {
        if *v != 0 && x / b != i1 {
            return x / b;
        }
    }
    i1
}

thread_local! { static UCACHE: RefCell<HashMap<String, Rc<Universe>>> = RefCell::new(HashMap::new()); }

fn classes_obs(b: usize, nb: usize, l: usize, bh: &CtlBH, keys: &[u64]) -> Vec<usize> {
    let mut cls = vec![usize::MAX; keys.len()];
    for i in 0..keys.len() {
        if cls[i] != usize::MAX {
            continue;
        }
        let mut f = fresh(b, nb, l, bh);
        let _ = f.insert(&keys[i]);
        for j in i..keys.len() {
            if cls[j] == usize::MAX && f.query(&keys[j]) {
                cls[j] = i;
            }
        }
        if cls[i] == usize::MAX {
            cls[i] = i;
        }
    }
    cls
}

pub fn build_universe(cfg: &Value) -> Rc<Universe> {
    let ck = cfg.to_string();
    if let Some(u) = UCACHE.with(|c| c.borrow().get(&ck).cloned()) {
        return u;
    }
    let b = cfg["b"].as_u64().unwrap() as usize;
    let nb = cfg["nb"].as_u64().unwrap() as usize;
    let u = if let Some(ks) = cfg["keys"].as_array() {
        let l = cfg["l"].as_u64().unwrap() as usize;
        let bh = CtlBH::from_json(&cfg["hasher"]);
        let keys: Vec<u64> = ks.iter().map(|k| k.as_u64().unwrap()).collect();
        let mut f = vec![];
        let mut i1 = vec![];
        let mut i2 = vec![];
        for &k in &keys {
            let (ff, a) = learn1(b, nb, l, &bh, k);
            f.push(ff);
            i1.push(a);
            i2.push(learn2(b, nb, l, &bh, k, a));
        }
        let cls = classes_obs(b, nb, l, &bh, &keys);
        Universe { b, nb, l, bh, keys, f, i1, i2, cls, by_class: HashMap::new() }
    } else {
        // small model: search a hasher seed realising the requested alt-bucket function H and
        // `reps` keys for every class <<f, i1>>
        let fpmax = cfg["fpmax"].as_u64().unwrap();
        let mut l = 2usize;
        while (1u64 << l) - 1 < fpmax {
            l += 1;
        }
        let l = cfg["l"].as_u64().map(|x| x as usize).unwrap_or(l);
        let want: Vec<usize> = cfg["h"].as_array().unwrap().iter().map(|x| x.as_u64().unwrap() as usize).collect();
        let reps = cfg["reps"].as_u64().unwrap_or(2) as usize;
        let mut found = None;
        'seed: for seed in 0..20000u64 {
            let bh = CtlBH::mix(seed);
            let mut by_class: HashMap<(u64, usize), Vec<u64>> = HashMap::new();
            let need = (fpmax as usize) * nb * reps;
            let mut have = 0;
            for key in 1..6000u64 {
                let (f, i1) = learn1(b, nb, l, &bh, key);
                if f <= fpmax {
                    let v = by_class.entry((f, i1)).or_default();
                    if v.len() < reps {
                        v.push(key);
                        have += 1;
                        if have == need {
                            break;
                        }
                    }
                }
            }
            if have < need {
                continue;
            }
            for f in 1..=fpmax {
                // the alternate bucket of class <<f, 0>>, read off the simple paths only (one insert into a fresh
                // filter, one query): the bucket a != 0 such that a filter holding only a key of class <<f, a>>
                // reports the key of class <<f, 0>>; none: the class has a single candidate bucket.  (Filling a
                // bucket and watching where the next copy lands would run through the eviction path.)
                let k0 = by_class[&(f, 0)][0];
                let mut i2 = 0;
                for a in 1..nb {
                    let mut flt = fresh(b, nb, l, &bh);
                    let _ = flt.insert(&by_class[&(f, a)][0]);
                    if flt.query(&k0) {
                        i2 = a;
                        break;
                    }
                }
                if i2 != want[(f - 1) as usize] {
                    continue 'seed;
                }
            }
            found = Some((bh, by_class));
            break;
        }
        let (bh, bc) = found.unwrap_or_else(|| probe_failed("no hasher seed realises the requested alt-bucket function"));
        let mut keys = vec![];
        let mut f = vec![];
        let mut i1 = vec![];
        let mut i2 = vec![];
        let mut by_class: HashMap<(u64, usize), Vec<usize>> = HashMap::new();
        for r in 0..reps {
            for ff in 1..=fpmax {
                for a in 0..nb {
                    let k = bc[&(ff, a)][r];
                    by_class.entry((ff, a)).or_default().push(keys.len());
                    keys.push(k);
                    f.push(ff);
                    i1.push(a);
                    i2.push(learn2(b, nb, l, &bh, k, a));
                }
            }
        }
        let cls = classes_obs(b, nb, l, &bh, &keys);
        Universe { b, nb, l, bh, keys, f, i1, i2, cls, by_class }
    };
    let u = Rc::new(u);
    UCACHE.with(|c| c.borrow_mut().insert(ck, u.clone()));
    u
}

impl CkSut {
    fn key_index(&self, op: &Value) -> usize {
        if let Some(k) = op["key"].as_u64() {
            k as usize
        } else {
            let f = op["f"].as_u64().unwrap();
            let i1 = op["i1"].as_u64().unwrap() as usize;
            let rep = op["rep"].as_u64().unwrap_or(0) as usize;
            let v = &self.u.by_class[&(f, i1)];
            v[rep % v.len()]
        }
    }
    fn qt(&self) -> Vec<usize> {
        (0..self.u.keys.len()).filter(|&i| self.f.query(&self.u.keys[i])).map(|i| i + 1).collect()
    }
    /// number of times each class can still be deleted (on a clone)
    fn dc(&self) -> Vec<u64> {
        let n = self.u.keys.len();
        let mut out = vec![0u64; n];
        for i in 0..n {
            if self.u.cls[i] == i {
                let mut c = self.f.clone();
                let mut k = 0u64;
                let key = self.u.keys[i];
                loop {
                    if k > (self.u.b * self.u.nb) as u64 {
                        break;
                    }
                    match guarded(|| c.delete(&key)) {
                        Ok(true) => k += 1,
                        Ok(false) => break,
                        Err(_) => {
                            // delete() panicked on the clone (e.g. count underflow): unmistakable sentinel
                            k = 9999;
                            break;
                        }
                    }
                }
                out[i] = k;
            }
        }
        out
    }
    fn load_script(&self, op: &Value) {
        let sc = &op["script"];
        if sc.is_null() {
            script_pattern(false, vec![0], self.u.b as u64);
        } else {
            let pat: Vec<u64> = sc["pat"].as_array().map(|a| a.iter().map(|x| x.as_u64().unwrap()).collect()).unwrap_or_else(|| vec![0]);
            script_pattern(sc["s2"].as_bool().unwrap_or(false), pat, self.u.b as u64);
        }
    }
}

impl Sut for CkSut {
    fn config(&self) -> Value {
        json!([self.f.bucketsize(), self.f.n_buckets(), self.f.l_fingerprint()])
    }
    const TAG: &'static str = "ck";
    fn uid(&self) -> usize {
        Rc::as_ptr(&self.u) as usize
    }
    fn pair_op(&self, name: &str, rng: &mut Prng) -> Value {
        let b = self.u.b as u64;
        let pat: Vec<u64> = (0..(1 + rng.below(3))).map(|_| rng.below(b)).collect();
        json!({"name": name, "script": {"s2": rng.chance(1, 2), "pat": pat}})
    }
    fn new(cfg: &Value) -> Self {
        let u = build_universe(cfg);
        let n = u.keys.len();
        CkSut { f: fresh(u.b, u.nb, u.l, &u.bh), u, ghost: vec![0; n] }
    }
    fn header(&self) -> Value {
        let u = &self.u;
        json!({"b": u.b, "nb": u.nb, "l": u.l, "nkeys": u.keys.len(),
               "cls": u.cls.iter().map(|c| c + 1).collect::<Vec<_>>(),
               "kf": u.f.iter().map(|f| if *f < (1 << 30) { json!(f) } else { json!(f.to_string()) }).collect::<Vec<_>>(),
               "ki1": u.i1, "ki2": u.i2,
               "keys": u.keys.iter().map(|k| k.to_string()).collect::<Vec<_>>(),
               "hasher": u.bh.to_json().to_string()})
    }
    fn apply(&mut self, op: &Value, other: Option<&Self>) -> Value {
        let ghost_pre = self.ghost.clone();
        let (len_pre, empty_pre, qt_pre, dc_pre) = (self.f.len(), self.f.is_empty(), self.qt(), self.dc());
        let twin = self.f.clone();
        let name = op["name"].as_str().unwrap();
        let mut rec = json!({});
        self.load_script(op);
        let res: String = match name {
            "ins" => {
                let ki = self.key_index(op);
                let key = self.u.keys[ki];
                rec["key"] = json!(ki + 1);
                rec["cls"] = json!(self.u.cls[ki] + 1);
                rec["margs"] = json!({"f": self.u.f[ki], "i1": self.u.i1[ki], "i2": self.u.i2[ki]});
                match guarded(|| self.f.insert(&key)) {
                    Ok(Ok(r)) => {
                        self.ghost[self.u.cls[ki]] += 1;
                        rec["ret"] = json!(r);
                        "ok".into()
                    }
                    Ok(Err(_)) => "full".into(),
                    Err(m) => {
                        rec["panic"] = json!(m);
                        "panic".into()
                    }
                }
            }
            "del" => {
                let ki = self.key_index(op);
                let key = self.u.keys[ki];
                rec["key"] = json!(ki + 1);
                rec["cls"] = json!(self.u.cls[ki] + 1);
                rec["margs"] = json!({"f": self.u.f[ki], "i1": self.u.i1[ki], "i2": self.u.i2[ki]});
                match guarded(|| self.f.delete(&key)) {
                    Ok(true) => {
                        self.ghost[self.u.cls[ki]] -= 1;
                        "true".into()
                    }
                    Ok(false) => "false".into(),
                    Err(m) => {
                        rec["panic"] = json!(m);
                        "panic".into()
                    }
                }
            }
            "clear" => match guarded(|| self.f.clear()) {
                Ok(()) => {
                    for g in self.ghost.iter_mut() {
                        *g = 0;
                    }
                    "cleared".into()
                }
                Err(m) => {
                    rec["panic"] = json!(m);
                    "panic".into()
                }
            },
            "union" => {
                let o = other.expect("union needs other");
                let o_before = (o.qt(), o.f.len(), o.dc());
                rec["ghost_other"] = json!(o.ghost);
                let r = guarded(|| self.f.union(&o.f));
                rec["other_same"] = json!(o_before == (o.qt(), o.f.len(), o.dc()));
                match r {
                    Ok(Ok(())) => {
                        for (i, c) in o.ghost.iter().enumerate() {
                            self.ghost[i] += *c;
                        }
                        "ok".into()
                    }
                    Ok(Err(_)) => "full".into(),
                    Err(m) => {
                        rec["panic"] = json!(m);
                        "panic".into()
                    }
                }
            }
            _ => panic!("tool error: unknown op {}", name),
        };
        let (_, _, consumed) = script_status();
        rec["rng_words"] = json!(consumed);
        rec["res"] = json!(res);
        rec["ghost_pre"] = json!(ghost_pre);
        rec["ghost_post"] = json!(self.ghost);
        rec["len_pre"] = json!(len_pre);
        rec["empty_pre"] = json!(empty_pre);
        rec["qt_pre"] = json!(qt_pre);
        rec["dc_pre"] = json!(dc_pre);
        if res != "panic" {
            rec["len_post"] = json!(self.f.len());
            rec["empty_post"] = json!(self.f.is_empty());
            rec["qt_post"] = json!(self.qt());
            rec["dc_post"] = json!(self.dc());
        }
        let tq: Vec<usize> = (0..self.u.keys.len()).filter(|&i| twin.query(&self.u.keys[i])).map(|i| i + 1).collect();
        rec["twin_ok"] = json!(tq == qt_pre && twin.len() == len_pre && twin.is_empty() == empty_pre);
        rec
    }
    fn mstate(&self) -> Value {
        // h: alt-bucket offset per fingerprint 1..fpmax as learned (small models only)
        let mut h: Vec<usize> = vec![];
        if !self.u.by_class.is_empty() {
            let fpmax = self.u.by_class.keys().map(|k| k.0).max().unwrap();
            for f in 1..=fpmax {
                let k = self.u.by_class[&(f, 0)][0];
                h.push(self.u.i2[k]);
            }
        }
        // larger parameters (E3): alt-bucket offset of every universe fingerprint, as learned by probing
        let mut hx: Vec<(u64, usize)> = vec![];
        if self.u.by_class.is_empty() {
            for k in 0..self.u.keys.len() {
                let pair = (self.u.f[k], self.u.i1[k] ^ self.u.i2[k]);
                if !hx.contains(&pair) {
                    hx.push(pair);
                }
            }
        }
        json!({"tbl": self.f.verif_table(), "n": self.f.len(), "h": h, "hx": hx})
    }
}

/// E3 driver: random scenarios on larger tables with long pseudo-random victim scripts,
/// loads up to and beyond capacity, deletes, unions that need evictions or fail.
pub fn drive(args: &[String]) {
    let seed = arg_u64(args, "--seed", 1);
    let n_sc = arg_u64(args, "--scenarios", 20);
    let max_nb_log = arg_u64(args, "--max-nb-log", 4);
    let mut out = Out::create(arg(args, "--out").expect("--out"));
    let mut rng = Prng::new(seed ^ 0xc0c0);
    for sci in 0..n_sc {
        let b = [2usize, 2, 3, 4, 8][rng.below(5) as usize];
        let nb = 1usize << (1 + rng.below(max_nb_log));
        let l = [2usize, 3, 5, 8, 16, 33, 64][rng.below(7) as usize];
        let bh = match rng.below(3) {
            0 => CtlBH::mix(rng.next()),
            1 => CtlBH::collide(rng.next(), 3 + rng.below(4) as u32),
            _ => CtlBH::identity(),
        };
        // the first scenarios pin the extreme shapes: widest / narrowest fingerprints with boundary hash values
        // (identity hasher: the key IS the hash, e.g. u64::MAX), smallest table
        let (b, nb, l, bh) = match sci {
            0 => (2usize, 2usize, 64usize, CtlBH::identity()),
            1 => (2, 4, 63, CtlBH::identity()),
            2 => (2, 2, 2, CtlBH::identity()),
            3 => (3, 2, 64, CtlBH::mix(rng.next())),
            _ => (b, nb, l, bh),
        };
        let nkeys = 10 + rng.below(9) as usize;
        let mut keys: Vec<u64> = if sci < 3 { vec![u64::MAX, u64::MAX - 1, 1 << 63, (1 << 63) - 1, 0, 1, 2, 3] } else { vec![] };
        while keys.len() < nkeys {
            let k = match rng.below(7) { 0..=2 => rng.below(64), 3 => boundary_key(&mut rng), _ => rng.next() };
            if !keys.contains(&k) {
                keys.push(k);
            }
        }
        if sci == 4 || (sci == 5 && n_sc > 100) {
            // saturation of a LARGE table (256 slots; 1024 in the thorough tier): the eviction chain of a failing insert
            // then visits mostly distinct slots, so that a rollback which misses one entry of the undo log is visible
            // (in tables of a few buckets the oldest entry for a slot hides a lost newer one)
            let (b, nb, l) = (4usize, if sci == 4 { 64usize } else { 256 }, 16usize);
            let bh = CtlBH::mix(rng.next());
            let nkeys = b * nb + 40;
            let mut keys: Vec<u64> = vec![];
            while keys.len() < nkeys {
                let k = rng.next();
                if !keys.contains(&k) {
                    keys.push(k);
                }
            }
            let mut steps: Vec<Value> = vec![];
            for ki in 0..nkeys {
                let pat: Vec<u64> = (0..97).map(|_| rng.below(b as u64)).collect();
                steps.push(json!({"obj": "a", "op": {"name":"ins","key": ki, "script": {"s2": rng.chance(1, 2), "pat": pat}}}));
            }
            out.put(&json!({"sc": sci, "cfg": {"b": b, "nb": nb, "l": l, "hasher": bh.to_json(), "keys": keys}, "steps": steps}));
            continue;
        }
        let cfg = json!({"b": b, "nb": nb, "l": l, "hasher": bh.to_json(), "keys": keys});
        let cap = (b * nb) as u64;
        let mut steps: Vec<Value> = vec![];
        // one scenario in three opens with the motif "content arrives by union only" (see cms.rs)
        if sci % 3 == 2 && sci > 5 {
            let sc0 = json!({"s2": false, "pat": [0]});
            steps.push(json!({"obj": "b", "op": {"name":"ins","key": 0, "script": sc0}}));
            steps.push(json!({"obj": "b", "op": {"name":"ins","key": 1, "script": sc0}}));
            steps.push(json!({"obj": "a", "other": "b", "op": {"name":"union", "script": sc0}}));
            steps.push(json!({"obj": "a", "op": {"name":"clear"}}));
            steps.push(json!({"obj": "a", "op": {"name":"ins","key": 2, "script": sc0}}));
            steps.push(json!({"obj": "a", "other": "b", "op": {"name":"union", "script": sc0}}));
            steps.push(json!({"obj": "a", "op": {"name":"clear"}}));
            steps.push(json!({"obj": "a", "other": "b", "op": {"name":"union", "script": sc0}}));
        }
        let n_ops = (cap + 10 + rng.below(40)).min(150);
        for _ in 0..n_ops {
            let x = rng.below(100);
            let obj = if rng.chance(1, 4) { "b" } else { "a" };
            let script = || -> Value { Value::Null };
            let _ = script;
            let pat: Vec<u64> = match rng.below(4) {
                0 => vec![0],
                1 => vec![(b - 1) as u64],
                2 => vec![0, (b - 1) as u64],
                _ => (0..97).map(|_| rng.below(b as u64)).collect(),
            };
            let sc = json!({"s2": rng.chance(1, 2), "pat": pat});
            if x < 62 {
                steps.push(json!({"obj": obj, "op": {"name":"ins","key": rng.below(nkeys as u64), "script": sc}}));
            } else if x < 82 {
                steps.push(json!({"obj": obj, "op": {"name":"del","key": rng.below(nkeys as u64)}}));
            } else if x < 94 {
                let (a, bb) = if rng.chance(2, 3) { ("a", "b") } else { ("b", "a") };
                steps.push(json!({"obj": a, "other": bb, "op": {"name":"union", "script": sc}}));
            } else if x < 96 {
                steps.push(json!({"obj": obj, "other": obj, "op": {"name":"union", "script": sc}}));
            } else {
                steps.push(json!({"obj": obj, "op": {"name":"clear"}}));
            }
        }
        out.put(&json!({"sc": sci, "cfg": cfg, "steps": steps}));
    }
    out.flush();
    println!("STATS {}", json!({"scenarios": n_sc}));
}
