//! C11: live heap bytes held by each structure as a function of its configuration and of the
//! number of processed elements (counting global allocator; measured, judged by P_Memory).
use crate::common::*;
use crate::td;
use pdatastructs::countminsketch::CountMinSketch;
use pdatastructs::filters::bloomfilter::BloomFilter;
use pdatastructs::filters::cuckoofilter::CuckooFilter;
use pdatastructs::filters::quotientfilter::QuotientFilter;
use pdatastructs::filters::Filter;
use pdatastructs::hyperloglog::HyperLogLog;
use pdatastructs::reservoirsampling::ReservoirSampling;
use pdatastructs::topk::cmsheap::CMSHeap;
use pdatastructs::topk::lossycounter::LossyCounter;
use rand::SeedableRng;
use rand_chacha::ChaChaRng;
use serde_json::{json, Value};
use std::alloc::{GlobalAlloc, Layout, System};
use std::sync::atomic::{AtomicI64, Ordering};

pub struct Counting;
pub static LIVE: AtomicI64 = AtomicI64::new(0);
unsafe impl GlobalAlloc for Counting {
    unsafe fn alloc(&self, l: Layout) -> *mut u8 {
        LIVE.fetch_add(l.size() as i64, Ordering::Relaxed);
        System.alloc(l)
    }
    unsafe fn dealloc(&self, p: *mut u8, l: Layout) {
        LIVE.fetch_sub(l.size() as i64, Ordering::Relaxed);
        System.dealloc(p, l)
    }
    unsafe fn realloc(&self, p: *mut u8, l: Layout, n: usize) -> *mut u8 {
        LIVE.fetch_add(n as i64 - l.size() as i64, Ordering::Relaxed);
        System.realloc(p, l, n)
    }
}
fn live() -> i64 {
    LIVE.load(Ordering::Relaxed)
}

const STAGES: [u64; 4] = [100, 1000, 10_000, 100_000];

/// measure: bytes after construction, after each stage of `step` calls, after clear
fn measure<T>(mk: impl FnOnce() -> T, mut step: impl FnMut(&mut T, u64), mut clear: impl FnMut(&mut T), stages: &[u64]) -> Value {
    let mut at: Vec<i64> = Vec::with_capacity(16); // allocated before the baseline is taken
    let base = live();
    let mut obj = mk();
    let b0 = live() - base;
    let mut done = 0u64;
    for &s in stages {
        while done < s {
            step(&mut obj, done);
            done += 1;
        }
        at.push(live() - base);
    }
    clear(&mut obj);
    let bc = live() - base;
    for i in 0..1000u64 {
        step(&mut obj, i);
    }
    let bc2 = live() - base;
    drop(obj);
    json!({"new": b0, "at": at, "cleared": bc, "cleared_plus_1000": bc2})
}

pub fn run(args: &[String]) {
    let mut out = Out::create(arg(args, "--out").expect("--out"));
    let thorough = args.iter().any(|a| a == "--thorough");
    let stages: Vec<u64> = if thorough { STAGES.to_vec() } else { STAGES[..3].to_vec() };
    let mut tid = 0u64;
    out.put(&json!({"k":"hdr","s":"mem","stages": stages}));
    let mut put = |out: &mut Out, st: &str, cfg: Value, m: Value| {
        tid += 1;
        let mut r = json!({"k":"p","s":"mem","tid":tid,"structure":st,"cfg":cfg,"stages":stages});
        for (k, v) in m.as_object().unwrap() {
            r[k] = v.clone();
        }
        out.put(&r);
    };
    let widths: Vec<usize> = if thorough { vec![2, 3, 5, 8, 13, 16, 32, 33, 64] } else { vec![2, 5, 8, 16, 64] };
    // Bloom
    for (m, k) in [(64usize, 1usize), (1000, 3), (65536, 7), (1_000_003, 4)] {
        let r = measure(|| BloomFilter::<u64>::with_params(m, k), |f, i| { f.insert(&i).unwrap(); }, |f| f.clear(), &stages);
        put(&mut out, "bloom", json!({"m": m, "k": k}), r);
    }
    // CountMinSketch<u32>
    for (w, d) in [(1usize, 1usize), (10, 20), (272, 3), (1000, 8)] {
        let r = measure(|| CountMinSketch::<u64, u32>::with_params(w, d), |f, i| { f.add(&(i % 5000)); }, |f| f.clear(), &stages);
        put(&mut out, "cms", json!({"w": w, "d": d, "csize": 4}), r);
    }
    // HyperLogLog
    for b in [4usize, 8, 12, 16, 18] {
        let r = measure(|| HyperLogLog::<u64>::new(b), |f, i| f.add(&i), |f| f.clear(), &stages);
        put(&mut out, "hll", json!({"b": b}), r);
    }
    // CuckooFilter: slots x fingerprint bits
    for &l in &widths {
        for (bs, nb) in [(2usize, 16usize), (4, 1024), (8, 4096)] {
            let r = measure(
                || CuckooFilter::<u64, ChaChaRng>::with_params(ChaChaRng::from_seed([0; 32]), bs, nb, l),
                |f, i| { let _ = f.insert(&i); if i % 3 == 0 { f.delete(&(i / 2)); } },
                |f| f.clear(),
                &stages,
            );
            put(&mut out, "cuckoo", json!({"bucketsize": bs, "n_buckets": nb, "l": l, "slots": bs * nb}), r);
        }
    }
    // QuotientFilter: slots x (remainder bits + 3)
    for &rb in &widths {
        for q in [4usize, 10, 14] {
            if q + rb > 64 {
                continue;
            }
            let r = measure(|| QuotientFilter::<u64>::with_params(q, rb), |f, i| { let _ = f.insert(&i); }, |f| f.clear(), &stages);
            put(&mut out, "quotient", json!({"q": q, "r": rb, "slots": 1usize << q}), r);
        }
    }
    // TDigest: O(delta + max_backlog_size) centroids of 16 bytes
    for scale in ["K0", "K1", "K2", "K3"] {
        for (delta, mb) in [(10u64, 0usize), (100, 10), (100, 1000), (1000, 100)] {
            let mut rng = Prng::new(7);
            let r = measure(
                || td::make(scale, delta as f64, mb),
                |d, _i| { let x = (rng.below(2_000_001) as f64) - 1_000_000.0; match d { td::Dg::K0(t) => t.insert(x), td::Dg::K1(t) => t.insert(x), td::Dg::K2(t) => t.insert(x), td::Dg::K3(t) => t.insert(x) } },
                |d| match d { td::Dg::K0(t) => t.clear(), td::Dg::K1(t) => t.clear(), td::Dg::K2(t) => t.clear(), td::Dg::K3(t) => t.clear() },
                &stages,
            );
            put(&mut out, "tdigest", json!({"scale": scale, "delta": delta, "mb": mb}), r);
        }
    }
    // TDigest with weights (fractional, mixed): the centroid bound is a function of the configuration only
    for scale in ["K0", "K1", "K2", "K3"] {
        for (wname, wsel) in [("half", 0u8), ("mixed", 1u8)] {
            let mut rng = Prng::new(11);
            let r = measure(
                || td::make(scale, 50.0, 10),
                |d, i| {
                    let x = (rng.below(2_000_001) as f64) - 1_000_000.0;
                    let w = if wsel == 0 { 0.5 } else { [0.25, 0.5, 1.0, 3.0, 1e-3, 40.0][(i % 6) as usize] };
                    match d { td::Dg::K0(t) => t.insert_weighted(x, w), td::Dg::K1(t) => t.insert_weighted(x, w), td::Dg::K2(t) => t.insert_weighted(x, w), td::Dg::K3(t) => t.insert_weighted(x, w) }
                },
                |d| match d { td::Dg::K0(t) => t.clear(), td::Dg::K1(t) => t.clear(), td::Dg::K2(t) => t.clear(), td::Dg::K3(t) => t.clear() },
                &stages,
            );
            put(&mut out, "tdigest", json!({"scale": scale, "delta": 50, "mb": 10, "weights": wname}), r);
        }
    }
    // ReservoirSampling<u64>
    for k in [1usize, 10, 1000] {
        let r = measure(|| ReservoirSampling::<u64, ChaChaRng>::new(k, ChaChaRng::from_seed([0; 32])), |f, i| f.add(i), |f| f.clear(), &stages);
        put(&mut out, "reservoir", json!({"k": k, "tsize": 8}), r);
    }
    // CMSHeap<u64>: k items (plus its sketch)
    for k in [1usize, 10, 100] {
        let r = measure(|| CMSHeap::<u64>::new(k, CountMinSketch::with_params(64, 4)), |f, i| f.add(mix64(i) % 5000), |f| f.clear(), &stages);
        put(&mut out, "cmsheap", json!({"k": k, "sketch_bytes": 64 * 4 * 8}), r);
    }
    // CMSHeap over a NARROW sketch and a small alphabet: tracked elements are re-added all the time and the sketch
    // over-estimates them (collisions in every row); still k items
    for k in [1usize, 4, 16] {
        let r = measure(|| CMSHeap::<u64>::new(k, CountMinSketch::with_params(8, 2)), |f, i| f.add(mix64(i) % 40), |f| f.clear(), &stages);
        put(&mut out, "cmsheap", json!({"k": k, "sketch_bytes": 8 * 2 * 8, "stream": "40 symbols over an 8x2 sketch"}), r);
    }
    // LossyCounter<u64>: O(1/eps * log(eps n)) entries -- growth with n is allowed, bounded by C09's table bound
    for w in [10usize, 100, 1000] {
        let r = measure(|| LossyCounter::<u64>::with_width(w), |f, i| { f.add(mix64(i) % 100_000); }, |f| f.clear(), &stages);
        put(&mut out, "lossy", json!({"width": w}), r);
    }
    // LossyCounter on the adversarial stream: every width-th element is one tracked heavy hitter, all others distinct
    for w in [10usize, 100] {
        let wu = w as u64;
        let r = measure(|| LossyCounter::<u64>::with_width(w), |f, i| { f.add(if (i + 1) % wu == 0 || (i + 2) % wu == 0 { 0 } else { 1_000_000 + i }); }, |f| f.clear(), &stages);
        put(&mut out, "lossy", json!({"width": w, "stream": "window-aligned heavy hitter"}), r);
    }
    // failed-operation paths: a full cuckoo / quotient filter that keeps rejecting inserts must not grow
    {
        let base = live();
        let mut f = QuotientFilter::<u64>::with_params(6, 8);
        for i in 0..64u64 { let _ = f.insert(&i); }
        let b1 = live() - base;
        for i in 64..20_064u64 { let _ = f.insert(&i); }
        let b2 = live() - base;
        let mut g = QuotientFilter::<u64>::with_params(6, 8);
        for i in 1000..1064u64 { let _ = g.insert(&i); }
        let before_union = live();
        let _ = f.union(&g);
        let b3 = live() - before_union;
        put(&mut out, "failed-ops", json!({"what": "quotient filter 64 slots: 20000 rejected inserts, failed union"}), json!({"new": b1, "at": [b2], "cleared": b3, "cleared_plus_1000": 0}));
        let base = live();
        let mut c = CuckooFilter::<u64, ChaChaRng>::with_params(ChaChaRng::from_seed([1; 32]), 2, 8, 8);
        let mut ok = 0;
        for i in 0..2000u64 { if c.insert(&i).is_ok() { ok += 1; } }
        let b1 = live() - base;
        for i in 2000..6000u64 { let _ = c.insert(&i); }
        let b2 = live() - base;
        put(&mut out, "failed-ops", json!({"what": "cuckoo filter 16 slots: thousands of inserts failing after 500 kicks", "succeeded": ok}), json!({"new": b1, "at": [b2], "cleared": 0, "cleared_plus_1000": 0}));
    }
    // clear-and-reuse cycles: a structure that is used a little and cleared, thousands of times, must not gain memory
    // (fingerprint / remainder widths include the powers of two, where the packed vectors end exactly on a block)
    {
        fn cycles<T>(mk: impl FnOnce() -> T, mut round: impl FnMut(&mut T, u64), n: u64) -> Value {
            let base = live();
            let mut obj = mk();
            for c in 0..20 {
                round(&mut obj, c);
            }
            let b0 = live() - base;
            for c in 20..n {
                round(&mut obj, c);
            }
            let b1 = live() - base;
            drop(obj);
            json!({"new": b0, "at": [b1], "cleared": 0, "cleared_plus_1000": 0})
        }
        let n = 3000u64;
        for l in [2usize, 3, 4, 8, 13, 16, 32, 33, 64] {
            let r = cycles(|| CuckooFilter::<u64, ChaChaRng>::with_params(ChaChaRng::from_seed([0; 32]), 2, 16, l), |f, c| { for i in 0..6u64 { let _ = f.insert(&(c * 7 + i)); } f.clear(); }, n);
            put(&mut out, "clear-cycles", json!({"what": "cuckoo 2x16", "l": l, "cycles": n}), r);
            if l + 4 <= 64 {
                let r = cycles(|| QuotientFilter::<u64>::with_params(4, l), |f, c| { for i in 0..6u64 { let _ = f.insert(&(c * 7 + i)); } f.clear(); }, n);
                put(&mut out, "clear-cycles", json!({"what": "quotient q=4", "r": l, "cycles": n}), r);
            }
        }
        let r = cycles(|| BloomFilter::<u64>::with_params(1000, 3), |f, c| { for i in 0..6u64 { f.insert(&(c * 7 + i)).unwrap(); } f.clear(); }, n);
        put(&mut out, "clear-cycles", json!({"what": "bloom 1000x3", "cycles": n}), r);
        let r = cycles(|| CountMinSketch::<u64, u32>::with_params(64, 3), |f, c| { for i in 0..6u64 { f.add(&(c * 7 + i)); } f.clear(); }, n);
        put(&mut out, "clear-cycles", json!({"what": "cms 64x3", "cycles": n}), r);
        let r = cycles(|| HyperLogLog::<u64>::new(6), |f, c| { for i in 0..6u64 { f.add(&(c * 7 + i)); } f.clear(); }, n);
        put(&mut out, "clear-cycles", json!({"what": "hll b=6", "cycles": n}), r);
        let r = cycles(|| ReservoirSampling::<u64, ChaChaRng>::new(4, ChaChaRng::from_seed([0; 32])), |f, c| { for i in 0..30u64 { f.add(c * 31 + i); } f.clear(); }, n);
        put(&mut out, "clear-cycles", json!({"what": "reservoir k=4", "cycles": n}), r);
        let r = cycles(|| CMSHeap::<u64>::new(4, CountMinSketch::with_params(8, 2)), |f, c| { for i in 0..30u64 { f.add((c + i) % 11); } f.clear(); }, n);
        put(&mut out, "clear-cycles", json!({"what": "cmsheap k=4 over 8x2", "cycles": n}), r);
        let r = cycles(|| LossyCounter::<u64>::with_width(5), |f, c| { for i in 0..30u64 { f.add((c + i) % 11); } f.clear(); }, n);
        put(&mut out, "clear-cycles", json!({"what": "lossy width 5", "cycles": n}), r);
        let r = cycles(|| td::make("K1", 20.0, 5), |d, c| { for i in 0..40u64 { match d { td::Dg::K0(t) => t.insert((c + i) as f64), td::Dg::K1(t) => t.insert((c + i) as f64), td::Dg::K2(t) => t.insert((c + i) as f64), td::Dg::K3(t) => t.insert((c + i) as f64) } }
            match d { td::Dg::K0(t) => t.clear(), td::Dg::K1(t) => t.clear(), td::Dg::K2(t) => t.clear(), td::Dg::K3(t) => t.clear() } }, n);
        put(&mut out, "clear-cycles", json!({"what": "tdigest K1 delta 20 backlog 5", "cycles": n}), r);
    }
    out.flush();
    println!("STATS {}", json!({"measurements": tid}));
}
