//! Constructor contracts (extra coverage): every case of Gen_Constructors on the real constructors.
use crate::common::*;
use pdatastructs::countminsketch::CountMinSketch;
use pdatastructs::filters::bloomfilter::BloomFilter;
use pdatastructs::filters::cuckoofilter::CuckooFilter;
use pdatastructs::filters::quotientfilter::QuotientFilter;
use pdatastructs::hyperloglog::HyperLogLog;
use pdatastructs::reservoirsampling::ReservoirSampling;
use pdatastructs::tdigest::{ScaleFunction, K0, K1, K2, K3};
use pdatastructs::topk::cmsheap::CMSHeap;
use pdatastructs::topk::lossycounter::LossyCounter;
use rand::SeedableRng;
use rand_chacha::ChaChaRng;
use serde_json::json;

pub fn run(args: &[String]) {
    let gen = arg(args, "--gen").expect("--gen");
    let mut out = Out::create(arg(args, "--out").expect("--out"));
    out.put(&json!({"k":"hdr","s":"ctor"}));
    let mut n = 0u64;
    for c in read_json_lines(gen) {
        if c["k"] != "case" {
            continue;
        }
        n += 1;
        let (a, b, d) = (c["a"].as_u64().unwrap() as usize, c["b"].as_u64().unwrap() as usize, c["d"].as_u64().unwrap() as usize);
        let ratio = if b != 0 { a as f64 / b as f64 } else { 0.0 };
        note_call(json!({"case": c}));
        let rng = || ChaChaRng::from_seed([0; 32]);
        // Ok(getters agree with the arguments)
        let r: Result<bool, String> = match c["ctor"].as_str().unwrap() {
            "qf" => guarded(|| { let f = QuotientFilter::<u64>::with_params(a, b); f.bits_quotient() == a && f.bits_remainder() == b }),
            "cuckoo" => guarded(|| { let f = CuckooFilter::<u64, ChaChaRng>::with_params(rng(), a, b, d); f.bucketsize() == a && f.n_buckets() == b && f.l_fingerprint() == d }),
            "hll" => guarded(|| { let h = HyperLogLog::<u64>::new(a); h.b() == a && h.m() == (1usize << a) && h.registers().len() == h.m() }),
            "reservoir" => guarded(|| { let r = ReservoirSampling::<u64, ChaChaRng>::new(a, rng()); r.k() == a && r.i() == 0 }),
            "cmsheap" => guarded(|| { let h = CMSHeap::<u64>::new(a, CountMinSketch::with_params(4, 2)); h.k() == a && h.is_empty() }),
            "lossy_width" => guarded(|| { let l = LossyCounter::<u64>::with_width(a); l.width() == a && l.n() == 0 }),
            "lossy_eps" => guarded(|| { let l = LossyCounter::<u64>::with_epsilon(ratio); l.epsilon() == ratio && l.width() >= 1 }),
            "K0" => guarded(|| K0::new(ratio).delta() == ratio),
            "K1" => guarded(|| K1::new(ratio).delta() == ratio),
            "K2" => guarded(|| K2::new(ratio).delta() == ratio),
            "K3" => guarded(|| K3::new(ratio).delta() == ratio),
            "bloom_props" => guarded(|| { let f = BloomFilter::<u64>::with_properties(d, ratio); f.k() >= 1 && f.m() >= 1 }),
            "cms_props" => guarded(|| { let s = CountMinSketch::<u64>::with_point_query_properties(ratio, d as f64 / 100.0); s.w() >= 1 && s.d() >= 1 }),
            "cuckoo_props" => guarded(|| { let f = CuckooFilter::<u64, ChaChaRng>::with_properties_4(ratio, d, rng()); f.bucketsize() == 4 && f.n_buckets() >= 2 }),
            other => panic!("tool error: unknown constructor {}", other),
        };
        let rec = match r {
            Ok(g) => json!({"k":"p","s":"ctor","tid":n,"case":c,"res":"ok","getters_ok":g}),
            Err(m) => json!({"k":"p","s":"ctor","tid":n,"case":c,"res":"panic","getters_ok":false,"panic":m}),
        };
        out.put(&rec);
    }
    out.flush();
    println!("STATS {}", json!({"cases": n}));
}
