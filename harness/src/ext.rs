//! Extend::extend (extra coverage): every case of Gen_Extend on the real structures. One object consumes the
//! prefix with add/insert and the rest with `extend`, a second one consumes everything with add/insert; all
//! observables must agree (default hashers: the Extend impls exist for the default hasher types only).
use crate::common::*;
use pdatastructs::countminsketch::CountMinSketch;
use pdatastructs::filters::bloomfilter::BloomFilter;
use pdatastructs::filters::Filter;
use pdatastructs::hyperloglog::HyperLogLog;
use pdatastructs::reservoirsampling::ReservoirSampling;
use pdatastructs::topk::cmsheap::CMSHeap;
use rand::SeedableRng;
use rand_chacha::ChaChaRng;
use serde_json::{json, Value};

fn seq(v: &Value) -> Vec<u64> {
    v.as_array().map(|a| a.iter().map(|x| x.as_u64().unwrap()).collect()).unwrap_or_default()
}

pub fn run(args: &[String]) {
    let gen = arg(args, "--gen").expect("--gen");
    let mut out = Out::create(arg(args, "--out").expect("--out"));
    out.put(&json!({"k":"hdr","s":"ext"}));
    let mut n = 0u64;
    let universe: Vec<u64> = (0..8).collect();
    for c in read_json_lines(gen) {
        if c["k"] != "case" {
            continue;
        }
        n += 1;
        let (pre, ext) = (seq(&c["pre"]), seq(&c["ext"]));
        let all: Vec<u64> = pre.iter().chain(ext.iter()).cloned().collect();
        note_call(json!({"case": c}));
        // Ok((same, Some(i) where the structure reports its stream length))
        let r: Result<(bool, Option<u64>), String> = match c["s"].as_str().unwrap() {
            "bloom" => guarded(|| {
                let mk = || BloomFilter::<u64>::with_params(16, 2);
                let (mut a, mut b) = (mk(), mk());
                for x in &pre { a.insert(x).unwrap(); }
                a.extend(ext.iter().cloned());
                for x in &all { b.insert(x).unwrap(); }
                let q = |f: &BloomFilter<u64>| universe.iter().map(|k| f.query(k)).collect::<Vec<bool>>();
                (a.verif_bits() == b.verif_bits() && a.len() == b.len() && a.is_empty() == b.is_empty() && q(&a) == q(&b)
                    && all.iter().all(|k| a.query(k)), None)
            }),
            "cms" => guarded(|| {
                let mk = || CountMinSketch::<u64>::with_params(4, 2);
                let (mut a, mut b) = (mk(), mk());
                for x in &pre { a.add(x); }
                a.extend(ext.iter().cloned());
                for x in &all { b.add(x); }
                let q = |f: &CountMinSketch<u64>| universe.iter().map(|k| f.query_point(k)).collect::<Vec<usize>>();
                let true_count = |k: &u64| all.iter().filter(|y| *y == k).count();
                (a.verif_table() == b.verif_table() && q(&a) == q(&b) && a.is_empty() == b.is_empty()
                    && universe.iter().all(|k| a.query_point(k) >= true_count(k)), None)
            }),
            s @ ("hll" | "hllref") => guarded(|| {
                let mk = || HyperLogLog::<u64>::new(4);
                let (mut a, mut b) = (mk(), mk());
                for x in &pre { a.add(x); }
                if s == "hll" { a.extend(ext.iter().cloned()); } else { a.extend(ext.iter()); }
                for x in &all { b.add(x); }
                (a.registers() == b.registers() && a.count() == b.count() && a.is_empty() == b.is_empty(), None)
            }),
            "reservoir" => guarded(|| {
                let mk = || ReservoirSampling::<u64, ChaChaRng>::new(2, ChaChaRng::from_seed([7; 32]));
                let (mut a, mut b) = (mk(), mk());
                // items are made distinguishable by their stream position
                let item = |pos: usize, x: u64| (pos as u64) * 16 + x;
                for (p, x) in pre.iter().enumerate() { a.add(item(p, *x)); }
                a.extend(ext.iter().enumerate().map(|(p, x)| item(pre.len() + p, *x)));
                for (p, x) in all.iter().enumerate() { b.add(item(p, *x)); }
                (a.reservoir() == b.reservoir() && a.i() == b.i() && a.is_empty() == b.is_empty() && a.verif_skip_until() == b.verif_skip_until(),
                 Some(a.i() as u64))
            }),
            "cmsheap" => guarded(|| {
                let mk = || CMSHeap::<u64>::new(2, CountMinSketch::with_params(4, 2));
                let (mut a, mut b) = (mk(), mk());
                for x in &pre { a.add(*x); }
                a.extend(ext.iter().cloned());
                for x in &all { b.add(*x); }
                let ent = |h: &CMSHeap<u64>| { let (mut m, t) = h.verif_entries(); m.sort(); (m, t) };
                (a.iter().collect::<Vec<u64>>() == b.iter().collect::<Vec<u64>>() && a.is_empty() == b.is_empty() && ent(&a) == ent(&b), None)
            }),
            other => panic!("tool error: unknown structure {}", other),
        };
        let mut rec = match r {
            Ok((same, i)) => {
                let mut v = json!({"k":"p","s":"ext","tid":n,"case":c,"res":"ok","same":same});
                if let Some(i) = i { v["i"] = json!(i); }
                v
            }
            Err(m) => json!({"k":"p","s":"ext","tid":n,"case":c,"res":"panic","same":false,"panic":m}),
        };
        rec["sc"] = json!(n);
        out.put(&rec);
    }
    out.flush();
    println!("STATS {}", json!({"cases": n}));
}
