//! Operand compatibility of union / merge (Gen_Compat): both operands built with BuildHasherSeeded; B differs from A
//! in the seed (low half, high half, both) or in one configuration parameter, or not at all.
use crate::common::*;
use pdatastructs::countminsketch::CountMinSketch;
use pdatastructs::filters::bloomfilter::BloomFilter;
use pdatastructs::filters::cuckoofilter::CuckooFilter;
use pdatastructs::filters::quotientfilter::QuotientFilter;
use pdatastructs::filters::Filter;
use pdatastructs::hash_utils::BuildHasherSeeded;
use pdatastructs::hyperloglog::HyperLogLog;
use rand::SeedableRng;
use rand_chacha::ChaChaRng;
use serde_json::{json, Value};

type BH = BuildHasherSeeded;

pub fn run(args: &[String]) {
    let gen = arg(args, "--gen").expect("--gen");
    let mut out = Out::create(arg(args, "--out").expect("--out"));
    out.put(&json!({"k":"hdr","s":"compat"}));
    let mut n = 0u64;
    let xs: Vec<u64> = (0..40).map(|i| mix64(i)).collect(); // A gets xs[..24], B gets xs[16..]
    for c in read_json_lines(gen) {
        if c["k"] != "case" {
            continue;
        }
        n += 1;
        let sa = ((c["hi"].as_u64().unwrap() << 32) | c["lo"].as_u64().unwrap()) as usize;
        let kind = c["kind"].as_str().unwrap();
        let sb = match kind {
            "seed-low" => sa ^ 1,
            "seed-high" => sa ^ (1usize << 32),
            "seed-both" => sa ^ ((1usize << 40) | 2),
            _ => sa,
        };
        let (p1, p2) = (kind == "param1", kind == "param2");
        note_call(json!({"case": c}));
        // Ok((accepted, lost, other unchanged))
        let r: Result<(bool, u64, bool), String> = match c["s"].as_str().unwrap() {
            "bloom" => guarded(|| {
                let mut a = BloomFilter::<u64, BH>::with_params_and_hash(512, 3, BH::new(sa));
                let mut b = BloomFilter::<u64, BH>::with_params_and_hash(if p1 { 520 } else { 512 }, if p2 { 4 } else { 3 }, BH::new(sb));
                for x in &xs[..24] { a.insert(x).unwrap(); }
                for x in &xs[16..] { b.insert(x).unwrap(); }
                let before: Vec<bool> = xs.iter().map(|x| b.query(x)).collect();
                let acc = a.union(&b).is_ok();
                (acc, xs.iter().filter(|x| !a.query(x)).count() as u64, before == xs.iter().map(|x| b.query(x)).collect::<Vec<bool>>())
            }),
            "cuckoo" => guarded(|| {
                let rng = || ChaChaRng::from_seed([3; 32]);
                let mut a = CuckooFilter::<u64, ChaChaRng, BH>::with_params_and_hash(rng(), 4, 32, 16, BH::new(sa));
                let mut b = CuckooFilter::<u64, ChaChaRng, BH>::with_params_and_hash(rng(), 4, if p1 { 64 } else { 32 }, if p2 { 17 } else { 16 }, BH::new(sb));
                for x in &xs[..24] { a.insert(x).unwrap(); }
                for x in &xs[16..] { b.insert(x).unwrap(); }
                let before: Vec<bool> = xs.iter().map(|x| b.query(x)).collect();
                let acc = a.union(&b).is_ok();
                (acc, xs.iter().filter(|x| !a.query(x)).count() as u64, before == xs.iter().map(|x| b.query(x)).collect::<Vec<bool>>() && b.len() == 24)
            }),
            "quotient" => guarded(|| {
                let mut a = QuotientFilter::<u64, BH>::with_params_and_hash(7, 12, BH::new(sa));
                let mut b = QuotientFilter::<u64, BH>::with_params_and_hash(if p1 { 8 } else { 7 }, if p2 { 13 } else { 12 }, BH::new(sb));
                for x in &xs[..24] { a.insert(x).unwrap(); }
                for x in &xs[16..] { b.insert(x).unwrap(); }
                let before: Vec<bool> = xs.iter().map(|x| b.query(x)).collect();
                let acc = a.union(&b).is_ok();
                (acc, xs.iter().filter(|x| !a.query(x)).count() as u64, before == xs.iter().map(|x| b.query(x)).collect::<Vec<bool>>() && b.len() == 24)
            }),
            "cms" => guarded(|| {
                let mut a = CountMinSketch::<u64, u32, BH>::with_params_and_hasher(64, 3, BH::new(sa));
                let mut b = CountMinSketch::<u64, u32, BH>::with_params_and_hasher(if p1 { 65 } else { 64 }, if p2 { 4 } else { 3 }, BH::new(sb));
                for x in &xs[..24] { a.add(x); }
                for x in &xs[16..] { b.add(x); }
                let before: Vec<u32> = xs.iter().map(|x| b.query_point(x)).collect();
                a.merge(&b);
                let truth = |i: usize| (if i < 24 { 1 } else { 0 }) + (if i >= 16 { 1 } else { 0 });
                (true, (0..xs.len()).filter(|&i| a.query_point(&xs[i]) < truth(i)).count() as u64, before == xs.iter().map(|x| b.query_point(x)).collect::<Vec<u32>>())
            }),
            "hll" => guarded(|| {
                let mut a = HyperLogLog::<u64, BH>::with_hash(6, BH::new(sa));
                let mut b = HyperLogLog::<u64, BH>::with_hash(if p1 || p2 { 7 } else { 6 }, BH::new(sb));
                for x in &xs[..24] { a.add(x); }
                for x in &xs[16..] { b.add(x); }
                let before = b.registers().to_vec();
                a.merge(&b);
                // everything either side held is still "in" the sketch: re-adding any element changes nothing
                let regs = a.registers().to_vec();
                let mut lost = 0u64;
                for x in &xs {
                    let mut t = a.clone();
                    t.add(x);
                    if t.registers() != &regs[..] { lost += 1; }
                }
                (true, lost, before == b.registers())
            }),
            other => panic!("tool error: unknown structure {}", other),
        };
        let rec = match r {
            Ok((acc, lost, other_same)) => json!({"k":"p","s":"compat","tid":n,"sc":n,"case":c,"res": if acc { "ok" } else { "refused" }, "lost": lost, "other_same": other_same}),
            Err(m) => json!({"k":"p","s":"compat","tid":n,"sc":n,"case":c,"res":"panic","lost":0,"other_same":true,"panic":m}),
        };
        out.put(&rec);
    }
    out.flush();
    println!("STATS {}", json!({"cases": n}));
}
