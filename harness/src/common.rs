//! Shared plumbing of the conformance harness: controllable hashers, scripted RNG,
//! ndjson I/O, panic/hang capture, and the generic engines
//!   * graph replay (E2): TLC-emitted transitions are executed on real objects,
//!   * scenario runner: a list of operations executed from a fresh object (used by E3
//!     drivers, by `tlc -simulate` behaviours and by `--replay`),
//! both of which emit one self-contained P-record per executed call.
#![allow(dead_code)]
use rand::RngCore;
use serde::{Deserialize, Serialize};
use serde_json::{json, Map, Value};
use std::cell::RefCell;
use std::collections::{HashMap, VecDeque};
use std::hash::{BuildHasher, Hasher};
use std::io::{BufRead, BufWriter, Write};
use std::panic::{catch_unwind, AssertUnwindSafe};
use std::sync::atomic::{AtomicU64, Ordering};

// ---------------------------------------------------------------------------------------------
// Controllable hashers.  A BuildHasher only promises "a function of the written bytes"; these are
// exactly that.  kind 0: identity on the last 8-byte word written; kind 1: seeded mix of all
// bytes; `mask` truncates the result (collision forcing).
#[derive(Clone, Debug, PartialEq, Eq, Serialize, Deserialize)]
pub struct CtlBH {
    pub kind: u8,
    pub seed: u64,
    pub mask: u64,
}
impl CtlBH {
    pub fn identity() -> Self {
        Self { kind: 0, seed: 0, mask: !0 }
    }
    pub fn mix(seed: u64) -> Self {
        Self { kind: 1, seed, mask: !0 }
    }
    pub fn collide(seed: u64, bits: u32) -> Self {
        Self { kind: 1, seed, mask: if bits >= 64 { !0 } else { (1u64 << bits) - 1 } }
    }
    pub fn from_json(v: &Value) -> Self {
        if v.is_null() {
            return Self::identity();
        }
        Self {
            kind: v["kind"].as_u64().unwrap_or(0) as u8,
            seed: v["seed"].as_u64().unwrap_or(0),
            mask: v["mask"].as_u64().unwrap_or(!0),
        }
    }
    pub fn to_json(&self) -> Value {
        json!({"kind": self.kind, "seed": self.seed, "mask": self.mask})
    }
}
pub struct CtlH {
    kind: u8,
    state: u64,
    mask: u64,
}
pub fn mix64(mut z: u64) -> u64 {
    z = z.wrapping_add(0x9e37_79b9_7f4a_7c15);
    z = (z ^ (z >> 30)).wrapping_mul(0xbf58_476d_1ce4_e5b9);
    z = (z ^ (z >> 27)).wrapping_mul(0x94d0_49bb_1331_11eb);
    z ^ (z >> 31)
}
impl Hasher for CtlH {
    fn finish(&self) -> u64 {
        self.state & self.mask
    }
    fn write(&mut self, bytes: &[u8]) {
        for ch in bytes.chunks(8) {
            let mut b = [0u8; 8];
            b[..ch.len()].copy_from_slice(ch);
            let w = u64::from_le_bytes(b);
            if self.kind == 0 {
                self.state = w;
            } else {
                self.state = mix64(self.state ^ w);
            }
        }
    }
}
impl BuildHasher for CtlBH {
    type Hasher = CtlH;
    fn build_hasher(&self) -> CtlH {
        CtlH { kind: self.kind, state: if self.kind == 0 { 0 } else { mix64(self.seed) }, mask: self.mask }
    }
}

// ---------------------------------------------------------------------------------------------
// Scripted randomness: the harness loads *intents* before a call; ScriptRng turns them into the
// raw words that make rand 0.8 produce exactly that outcome.  Self-tested against the linked
// rand at start-up (selftest_rng).  `Raw` injects a verbatim word.
#[derive(Clone, Copy, Debug, PartialEq)]
pub enum Intent {
    Bool(bool),
    Below(u64, u64), // outcome j of gen_range(0..n)
    Unit52(u64),     // gen_range(0.0..1.0) == m / 2^52
    Raw(u64),
}
#[derive(Default)]
pub struct ScriptState {
    pub q: VecDeque<Intent>,
    pub mismatch: Option<String>,
    pub consumed: u64,
    /// when the queue is empty: None = protocol mismatch, Some(w) = keep returning w
    pub fallback: Option<u64>,
    /// pattern mode (cuckoo): every next_u32 answers `s2` and restarts the victim pattern, every
    /// next_u64 answers gen_range(0..n) == pat[counter % len]
    pub pattern: Option<(bool, Vec<u64>, u64, usize)>,
}
thread_local! { pub static SCRIPT: RefCell<ScriptState> = RefCell::new(ScriptState::default()); }
#[derive(Clone, Debug, Default)]
pub struct ScriptRng;
fn below_word(j: u64, n: u64) -> u64 {
    ((((j as u128) << 64) + (n as u128) - 1) / (n as u128)) as u64
}
impl RngCore for ScriptRng {
    fn next_u32(&mut self) -> u32 {
        SCRIPT.with(|s| {
            let mut s = s.borrow_mut();
            s.consumed += 1;
            if let Some(p) = s.pattern.as_mut() {
                p.3 = 0;
                return if p.0 { 0x8000_0000 } else { 0 };
            }
            match s.q.pop_front() {
                Some(Intent::Bool(b)) => {
                    if b {
                        0x8000_0000
                    } else {
                        0
                    }
                }
                Some(Intent::Raw(w)) => w as u32,
                Some(Intent::Below(j, n)) if n <= u32::MAX as u64 => {
                    // rand uses 32-bit sampling for usize ranges that fit into u32
                    ((((j as u128) << 32) + (n as u128) - 1) / (n as u128)) as u32
                }
                x => {
                    if let (None, Some(w)) = (&x, s.fallback) {
                        // unscripted extra draw: continue with a pseudo-random stream (a constant word
                        // could be rejected forever by rand's rejection sampling)
                        let nw = w.wrapping_add(0x9e37_79b9_7f4a_7c15);
                        s.fallback = Some(nw);
                        return (mix64(nw) >> 32) as u32;
                    }
                    s.mismatch.get_or_insert(format!("next_u32 got {:?}", x));
                    0
                }
            }
        })
    }
    fn next_u64(&mut self) -> u64 {
        SCRIPT.with(|s| {
            let mut s = s.borrow_mut();
            s.consumed += 1;
            if let Some(p) = s.pattern.as_mut() {
                let j = p.1[p.3 % p.1.len()];
                p.3 += 1;
                return below_word(j % p.2, p.2);
            }
            match s.q.pop_front() {
                Some(Intent::Below(j, n)) => below_word(j, n),
                Some(Intent::Unit52(m)) => m << 12,
                Some(Intent::Raw(w)) => w,
                x => {
                    if let (None, Some(w)) = (&x, s.fallback) {
                        let nw = w.wrapping_add(0x9e37_79b9_7f4a_7c15);
                        s.fallback = Some(nw);
                        return mix64(nw);
                    }
                    s.mismatch.get_or_insert(format!("next_u64 got {:?}", x));
                    0
                }
            }
        })
    }
    fn fill_bytes(&mut self, d: &mut [u8]) {
        for b in d.iter_mut() {
            *b = 0;
        }
        SCRIPT.with(|s| s.borrow_mut().mismatch.get_or_insert("fill_bytes".into()).len());
    }
    fn try_fill_bytes(&mut self, d: &mut [u8]) -> Result<(), rand::Error> {
        self.fill_bytes(d);
        Ok(())
    }
}
pub fn script_load(v: &[Intent]) {
    SCRIPT.with(|s| {
        let mut s = s.borrow_mut();
        s.q.clear();
        s.q.extend(v.iter().cloned());
        s.mismatch = None;
        s.consumed = 0;
        s.fallback = None;
        s.pattern = None;
    });
}
pub fn script_pattern(s2: bool, pat: Vec<u64>, n: u64) {
    script_load(&[]);
    SCRIPT.with(|s| s.borrow_mut().pattern = Some((s2, if pat.is_empty() { vec![0] } else { pat }, n, 0)));
}
pub fn script_fallback(w: Option<u64>) {
    SCRIPT.with(|s| s.borrow_mut().fallback = w);
}
/// (leftover intents, mismatch message, consumed words)
pub fn script_status() -> (usize, Option<String>, u64) {
    SCRIPT.with(|s| {
        let s = s.borrow();
        (s.q.len(), s.mismatch.clone(), s.consumed)
    })
}
pub fn selftest_rng() -> Result<(), String> {
    use rand::Rng;
    let mut r = ScriptRng;
    for n in 1..=64u64 {
        for j in 0..n {
            script_load(&[Intent::Below(j, n)]);
            let got = r.gen_range(0..n as usize);
            if got != j as usize || script_status().1.is_some() {
                return Err(format!("Below({},{}) gave {} {:?}", j, n, got, script_status().1));
            }
            script_load(&[Intent::Below(j, n)]);
            let got = r.gen_range(0..=(n - 1) as usize);
            if got != j as usize || script_status().1.is_some() {
                return Err(format!("Below({},{}) inclusive gave {}", j, n, got));
            }
        }
    }
    for (j, n) in [(0u64, 1000u64), (999, 1000), (12345, 100_000), (99_999, 100_000)] {
        script_load(&[Intent::Below(j, n)]);
        let got = r.gen_range(0..n as usize);
        if got != j as usize {
            return Err(format!("Below({},{}) gave {}", j, n, got));
        }
    }
    for b in [false, true] {
        script_load(&[Intent::Bool(b)]);
        if r.gen::<bool>() != b {
            return Err("Bool".into());
        }
    }
    for m in [0u64, 1, 1 << 51, (1 << 52) - 1, 12345678901] {
        script_load(&[Intent::Unit52(m)]);
        let u: f64 = r.gen_range((0.)..1.);
        if u != m as f64 / (1u64 << 52) as f64 {
            return Err(format!("Unit52({}) gave {}", m, u));
        }
    }
    script_load(&[]);
    Ok(())
}
pub fn intents_from_json(v: &Value) -> Vec<Intent> {
    let mut out = vec![];
    if let Some(a) = v.as_array() {
        for x in a {
            if let Some(b) = x.get("bool") {
                out.push(Intent::Bool(b.as_bool().unwrap()));
            } else if let Some(b) = x.get("below") {
                out.push(Intent::Below(b[0].as_u64().unwrap(), b[1].as_u64().unwrap()));
            } else if let Some(b) = x.get("unit52") {
                out.push(Intent::Unit52(b.as_u64().unwrap()));
            } else if let Some(b) = x.get("raw") {
                out.push(Intent::Raw(b.as_u64().unwrap()));
            }
        }
    }
    out
}

/// A recording RNG wrapper: every raw word handed out is appended to a thread-local log.
thread_local! { pub static RNGLOG: RefCell<Vec<u64>> = RefCell::new(vec![]); }
#[derive(Clone, Debug)]
pub struct LogRng<R: RngCore>(pub R);
impl<R: RngCore> RngCore for LogRng<R> {
    fn next_u32(&mut self) -> u32 {
        let w = self.0.next_u32();
        RNGLOG.with(|l| l.borrow_mut().push(w as u64));
        w
    }
    fn next_u64(&mut self) -> u64 {
        let w = self.0.next_u64();
        RNGLOG.with(|l| l.borrow_mut().push(w));
        w
    }
    fn fill_bytes(&mut self, d: &mut [u8]) {
        self.0.fill_bytes(d)
    }
    fn try_fill_bytes(&mut self, d: &mut [u8]) -> Result<(), rand::Error> {
        self.0.try_fill_bytes(d)
    }
}

// ---------------------------------------------------------------------------------------------
// small deterministic PRNG for drivers (all randomness of the harness derives from VERIF_SEED)
#[derive(Clone)]
pub struct Prng(pub u64);
impl Prng {
    pub fn new(seed: u64) -> Self {
        Prng(mix64(seed ^ 0x5851_f42d_4c95_7f2d))
    }
    pub fn next(&mut self) -> u64 {
        self.0 = self.0.wrapping_add(0x9e37_79b9_7f4a_7c15);
        mix64(self.0)
    }
    pub fn below(&mut self, n: u64) -> u64 {
        if n == 0 {
            0
        } else {
            self.next() % n
        }
    }
    pub fn chance(&mut self, num: u64, den: u64) -> bool {
        self.below(den) < num
    }
}

/// Boundary values for driver key universes: under the identity hasher they are boundary HASH values (all ones, top
/// bit only, 2^32 +- 1, ...), which exercise modulus / shift / leading-zero arithmetic at its edges.
pub fn boundary_key(rng: &mut Prng) -> u64 {
    const B: [u64; 10] = [u64::MAX, u64::MAX - 1, 1 << 63, (1 << 63) - 1, (1 << 63) + 1, 1 << 32, (1 << 32) - 1, u32::MAX as u64 + 2, 0, 1];
    B[rng.below(B.len() as u64) as usize]
}

// ---------------------------------------------------------------------------------------------
// I/O
type SharedW = std::sync::Arc<std::sync::Mutex<BufWriter<Box<dyn Write + Send>>>>;
/// every open record file, so that the watchdog can flush complete lines before it ends the process
static OUTS: std::sync::Mutex<Vec<SharedW>> = std::sync::Mutex::new(Vec::new());
pub struct Out {
    w: SharedW,
    pub lines: u64,
}
impl Out {
    pub fn create(path: &str) -> Self {
        let f: Box<dyn Write + Send> = if path == "-" {
            Box::new(std::io::stdout())
        } else {
            Box::new(std::fs::File::create(path).unwrap_or_else(|e| panic!("create {}: {}", path, e)))
        };
        let w: SharedW = std::sync::Arc::new(std::sync::Mutex::new(BufWriter::with_capacity(1 << 20, f)));
        OUTS.lock().unwrap().push(w.clone());
        Out { w, lines: 0 }
    }
    pub fn put(&mut self, v: &Value) {
        let mut w = self.w.lock().unwrap();
        serde_json::to_writer(&mut *w, v).unwrap();
        w.write_all(b"\n").unwrap();
        self.lines += 1;
        tick();
    }
    pub fn flush(&mut self) {
        self.w.lock().unwrap().flush().unwrap();
    }
}
fn flush_all_outs() {
    if let Ok(outs) = OUTS.try_lock() {
        for w in outs.iter() {
            if let Ok(mut g) = w.try_lock() {
                let _ = g.flush();
            }
        }
    }
}
/// Heartbeat: every record written, every guarded call and every noted call counts as progress.
pub static PROGRESS: AtomicU64 = AtomicU64::new(0);
pub fn tick() {
    PROGRESS.fetch_add(1, Ordering::Relaxed);
}
/// Lines of a TLC output file that carry `PrintT(ToJson(..))` payloads (a JSON-escaped TLA+
/// string, hence decoded twice), or plain ndjson.
pub fn read_json_lines(path: &str) -> impl Iterator<Item = Value> {
    let f = std::fs::File::open(path).unwrap_or_else(|e| panic!("open {}: {}", path, e));
    std::io::BufReader::with_capacity(1 << 20, f).lines().filter_map(|l| {
        let l = l.unwrap();
        if l.starts_with("\"{") {
            let s: String = serde_json::from_str(&l).ok()?;
            serde_json::from_str(&s).ok()
        } else if l.starts_with('{') {
            serde_json::from_str(&l).ok()
        } else {
            None
        }
    })
}
pub fn arg<'a>(args: &'a [String], name: &str) -> Option<&'a str> {
    args.iter().position(|a| a == name).and_then(|i| args.get(i + 1)).map(|s| s.as_str())
}
pub fn arg_u64(args: &[String], name: &str, default: u64) -> u64 {
    arg(args, name).map(|s| s.parse().unwrap()).unwrap_or(default)
}

// ---------------------------------------------------------------------------------------------
// Panic / hang capture.  A panic of the code under test is an *outcome*, not a tool failure.
pub static CALL_STARTED_MS: AtomicU64 = AtomicU64::new(0);
pub static CALL_TID: AtomicU64 = AtomicU64::new(0);
pub fn now_ms() -> u64 {
    std::time::SystemTime::now().duration_since(std::time::UNIX_EPOCH).unwrap().as_millis() as u64
}
thread_local! { pub static LAST_PANIC: RefCell<String> = RefCell::new(String::new()); }
thread_local! { pub static IN_GUARD: RefCell<bool> = RefCell::new(false); }
pub fn install_panic_hook() {
    std::panic::set_hook(Box::new(|info| {
        let msg = if let Some(s) = info.payload().downcast_ref::<&str>() {
            s.to_string()
        } else if let Some(s) = info.payload().downcast_ref::<String>() {
            s.clone()
        } else {
            "panic".to_string()
        };
        let loc = info.location().map(|l| format!("{}:{}", l.file(), l.line())).unwrap_or_default();
        if !IN_GUARD.with(|g| *g.borrow()) {
            if foreign_location(&loc) {
                eprintln!("PANIC of the code under test outside a guarded call: {} @ {}", msg, loc);
            } else {
                eprintln!("TOOL-ERROR: harness panicked outside a guarded call: {} @ {}", msg, loc);
            }
        }
        LAST_PANIC.with(|p| *p.borrow_mut() = format!("{} @ {}", msg, loc));
    }));
}
/// Does a panic location lie outside the harness crate (whose own files are reported relative, `src/..`)?  Then the
/// panic was raised by the code under test (or a library below it) while the harness was observing the object.
pub fn foreign_location(loc: &str) -> bool {
    !loc.is_empty() && !loc.starts_with("src/") && !loc.starts_with("harness/")
}
/// A public read method of the code under test panicked while the harness was observing the object (outside
/// `guarded`): recorded like a hang - one record in the hang file, record files flushed, exit 0 - and judged
/// by the pipeline as `<id>.total`, never as a tool error.
pub fn observation_panicked(msg: &str) -> ! {
    let rec = json!({"k":"hang","s":"vh","kind":"panic_in_observation","tid":CALL_TID.load(Ordering::SeqCst),
                     "panic": msg, "note": HANG_NOTE.lock().unwrap().clone()});
    let path = HANG_PATH.lock().unwrap().clone();
    if let Ok(mut f) = std::fs::OpenOptions::new().create(true).append(true).open(&path) {
        let _ = writeln!(f, "{}", rec);
    }
    eprintln!("PANIC-IN-OBSERVATION: {}", rec);
    flush_all_outs();
    std::process::exit(0);
}
/// A probe of the code under test (learning which keys realise the hash attributes a small model asks for) could not
/// realise what the mechanism spec presupposes - e.g. no key with stride h2 = 0 exists because the code derives its
/// positions differently.  Not a verdict and not a tool failure: the mechanism spec's hashing model does not describe
/// this code, so the spec -> code replay of this model is skipped (recorded like a hang, kind `probe_failed`, exit 0;
/// the pipeline counts it as drift) and the property level carries on with the driver scenarios.
pub fn probe_failed(msg: &str) -> ! {
    let rec = json!({"k":"hang","s":"vh","kind":"probe_failed","tid":0,"msg": msg, "note": HANG_NOTE.lock().unwrap().clone()});
    let path = HANG_PATH.lock().unwrap().clone();
    if let Ok(mut f) = std::fs::OpenOptions::new().create(true).append(true).open(&path) {
        let _ = writeln!(f, "{}", rec);
    }
    eprintln!("PROBE-FAILED: {}", rec);
    flush_all_outs();
    std::process::exit(0);
}
pub static HANG_PATH: std::sync::Mutex<String> = std::sync::Mutex::new(String::new());
/// Run `f`; Err(message) if it panicked.
pub fn guarded<T>(f: impl FnOnce() -> T) -> Result<T, String> {
    tick();
    CALL_STARTED_MS.store(now_ms(), Ordering::SeqCst);
    IN_GUARD.with(|g| *g.borrow_mut() = true);
    let r = catch_unwind(AssertUnwindSafe(f));
    IN_GUARD.with(|g| *g.borrow_mut() = false);
    CALL_STARTED_MS.store(0, Ordering::SeqCst);
    r.map_err(|_| LAST_PANIC.with(|p| p.borrow().clone()))
}
/// Watchdog: if one guarded call runs longer than `limit_ms`, or the whole harness makes no progress (no
/// record written, no guarded call started, no call noted) for `6 * limit_ms` - a call of the code under
/// test made outside `guarded`, e.g. a query of the observation, does not return -, append a `hang`
/// record to `hang_path`, flush the record files and leave the process with exit code 0 (the record is
/// judged like any other).
pub fn start_watchdog(limit_ms: u64, hang_path: String, structure: &'static str) {
    *HANG_PATH.lock().unwrap() = hang_path.clone();
    std::thread::spawn(move || {
        let mut last_progress = PROGRESS.load(Ordering::Relaxed);
        let mut last_change = now_ms();
        loop {
            std::thread::sleep(std::time::Duration::from_millis(200));
            let st = CALL_STARTED_MS.load(Ordering::SeqCst);
            let p = PROGRESS.load(Ordering::Relaxed);
            if p != last_progress {
                last_progress = p;
                last_change = now_ms();
            }
            let call_hangs = st != 0 && now_ms().saturating_sub(st) > limit_ms;
            let stalled = now_ms().saturating_sub(last_change) > 6 * limit_ms;
            if call_hangs || stalled {
                let rec = json!({"k":"hang","s":structure,"tid":CALL_TID.load(Ordering::SeqCst), "in_call": call_hangs,
                                 "cur": CUR_CALL.with(|_| Value::Null), "note": HANG_NOTE.lock().unwrap().clone()});
                let mut f = std::fs::OpenOptions::new().create(true).append(true).open(&hang_path).unwrap();
                writeln!(f, "{}", rec).unwrap();
                eprintln!("HANG: the code under test did not return within {} ms: {}", if call_hangs { limit_ms } else { 6 * limit_ms }, rec);
                flush_all_outs();
                std::process::exit(0);
            }
        }
    });
}
thread_local! { pub static CUR_CALL: RefCell<Value> = RefCell::new(Value::Null); }
pub static HANG_NOTE: std::sync::Mutex<Value> = std::sync::Mutex::new(Value::Null);
pub fn note_call(v: Value) {
    tick();
    *HANG_NOTE.lock().unwrap() = v;
}

// ---------------------------------------------------------------------------------------------
/// One structure under test: real object(s) + the P-level ghost of its own history.
pub trait Sut: Clone {
    /// short structure tag used in records ("qf", "ck", ...)
    const TAG: &'static str;
    /// compare mstate() with the emitted spec state after every transition (false: the generator
    /// predicts no mechanism state; M-level validation is done by TLC on the recorded M-records)
    const COMPARE_MSTATE: bool = true;
    /// fresh object for an initial state of the model / a scenario header
    fn new(cfg: &Value) -> Self;
    /// header record written in front of the P-records (class tables, configuration ...)
    fn header(&self) -> Value;
    /// execute one call on the real object, update the ghost from the code's own result,
    /// return the P-record fields.  `other` is the second operand of union/merge.
    fn apply(&mut self, op: &Value, other: Option<&Self>) -> Value;
    /// M-level dump in the format of the M-spec's emitted states (through the hooks)
    fn mstate(&self) -> Value;
    /// the binary operation applied to pairs of materialised states (may carry a random script)
    fn pair_op(&self, name: &str, _rng: &mut Prng) -> Value {
        json!({"name": name})
    }
    /// identity of the key universe / configuration the object lives in (header switches)
    fn uid(&self) -> usize {
        0
    }
    /// the configuration as the public getters report it (must never change, in particular not by clear())
    fn config(&self) -> Value {
        Value::Null
    }
    /// did the call fail / reset (object worth re-exploring as a second representative)?
    fn is_alt_worthy(rec: &Value) -> bool {
        matches!(rec["res"].as_str(), Some("full") | Some("cleared"))
    }
}

/// C19 lock-step: once an object has been cleared, a freshly constructed object of the same
/// configuration receives the same calls; their observable answers must stay identical.
#[derive(Clone)]
pub struct LockStep<S: Sut> {
    pub main: S,
    pub shadow: Option<S>,
    pub cfg: Value,
    /// what the configuration getters answered right after construction
    pub getters0: Value,
}
impl<S: Sut> LockStep<S> {
    pub fn new(cfg: &Value) -> Self {
        let main = S::new(cfg);
        let getters0 = main.config();
        LockStep { main, shadow: None, cfg: cfg.clone(), getters0 }
    }
    pub fn apply(&mut self, op: &Value, other: Option<&S>) -> Value {
        // the Sut guards the call itself; its observation of the object (query over the universe, len, count, ...)
        // runs unguarded: a panic raised there by the code under test is an outcome, not a tool failure
        let main = &mut self.main;
        let mut rec = match catch_unwind(AssertUnwindSafe(|| main.apply(op, other))) {
            Ok(r) => r,
            Err(e) => {
                let msg = LAST_PANIC.with(|p| p.borrow().clone());
                let loc = msg.rsplit(" @ ").next().unwrap_or("").to_string();
                if foreign_location(&loc) {
                    observation_panicked(&msg);
                }
                std::panic::resume_unwind(e)
            }
        };
        if !self.getters0.is_null() {
            rec["cfg_same"] = json!(self.main.config() == self.getters0);
        }
        if rec["skip"] == true {
            if let Some(sh) = self.shadow.as_mut() {
                let _ = sh.apply(op, other);
            }
            return rec;
        }
        if let Some(sh) = self.shadow.as_mut() {
            let r2 = sh.apply(op, other);
            let mut same = true;
            if let (Value::Object(a), Value::Object(b)) = (&rec, &r2) {
                for (k, v) in a {
                    if k.ends_with("_post") || k == "res" || k == "ret" {
                        same &= b.get(k) == Some(v);
                    }
                }
            }
            rec["shadow_same"] = json!(same);
        }
        if rec["res"] == "cleared" {
            self.shadow = Some(S::new(&self.cfg));
        }
        rec
    }
}

fn merge_into(dst: &mut Map<String, Value>, src: Value) {
    if let Value::Object(m) = src {
        for (k, v) in m {
            dst.insert(k, v);
        }
    }
}

pub struct ReplayStats {
    pub transitions: u64,
    pub executed: u64,
    pub drift: u64,
    pub states: u64,
    pub alt_states: u64,
    pub alt_executed: u64,
    pub pairs: u64,
    pub missing: u64,
    pub panics: u64,
    pub tags: HashMap<String, u64>,
    pub tagged_distinct: u64,
    pub first_drift: Vec<Value>,
}

struct Node<S: Sut> {
    sut: LockStep<S>,
    hid: u64,
    kind: String,
}
fn put_rec<S: Sut>(out: &mut Out, last_uid: &mut usize, sut: &LockStep<S>, rec: Value) {
    let sut = &sut.main;
    if sut.uid() != *last_uid {
        let mut h = sut.header();
        h["k"] = json!("hdr");
        h["s"] = json!(S::TAG);
        out.put(&h);
        *last_uid = sut.uid();
    }
    out.put(&rec);
}

/// E2: execute every emitted transition once on the real code.
///
/// gen lines: {"k":"init","cfg":..,"st":..}  and  {"k":"t","pre":..,"op":..,"post":..,"res":..,"tags":[..]}
/// out: P-records (ndjson), hist: one line per materialised object {"hid","parent","op","other"?}
/// mout: M-records for binary operations over pairs of materialised states (validated by TLC
///       against the pure operator of the M-spec, code -> spec direction).
pub struct ReplayOpts {
    pub reps: u64,
    pub max_alt: u64,
    pub pair_budget: u64,
    pub pair_op: Option<String>,
    pub seed: u64,
    pub max_transitions: u64,
    pub cfg_extra: Option<Value>,
    pub mall: bool,
}

pub fn graph_replay<S: Sut>(gen_path: &str, out: &mut Out, hist: &mut Out, mut mout: Option<&mut Out>, opts: &ReplayOpts) -> ReplayStats {
    let mut st = ReplayStats {
        transitions: 0, executed: 0, drift: 0, states: 0, alt_states: 0, alt_executed: 0, pairs: 0, missing: 0, panics: 0,
        tags: HashMap::new(), tagged_distinct: 0, first_drift: vec![],
    };
    let mut nodes: HashMap<String, Node<S>> = HashMap::new();
    let mut alts: HashMap<String, Vec<Node<S>>> = HashMap::new();
    let mut pending: HashMap<String, Vec<Value>> = HashMap::new();
    let mut next_hid = 0u64;
    let mut header_written = false;
    let mut tid = 0u64;
    let mut cfg0 = Value::Null;
    let mut last_uid = usize::MAX;
    let mut mall_hdr_written = false;

    let mut work: VecDeque<Value> = VecDeque::new();
    let mut lines = read_json_lines(gen_path);
    loop {
        let t = match work.pop_front() {
            Some(t) => t,
            None => match lines.next() {
                Some(t) => t,
                None => break,
            },
        };
        match t["k"].as_str() {
            Some("init") => {
                let key = t["st"].to_string();
                if !nodes.contains_key(&key) {
                    let mut cfg = t["cfg"].clone();
                    if let (Some(Value::Object(ex)), Value::Object(c)) = (&opts.cfg_extra, &mut cfg) {
                        for (k, v) in ex {
                            c.insert(k.clone(), v.clone());
                        }
                    }
                    let t = {
                        let mut t2 = t.clone();
                        t2["cfg"] = cfg;
                        t2
                    };
                    let sut = LockStep::<S>::new(&t["cfg"]);
                    if !header_written {
                        let mut h = sut.main.header();
                        h["k"] = json!("hdr");
                        h["s"] = json!(S::TAG);
                        out.put(&h);
                        last_uid = sut.main.uid();
                        header_written = true;
                        cfg0 = t["cfg"].clone();
                        if let Value::Object(c) = &mut cfg0 {
                            if let Value::Object(h) = sut.main.header() {
                                for (k, v) in h {
                                    c.entry(k).or_insert(v);
                                }
                            }
                        }
                    }
                    hist.put(&json!({"hid": next_hid, "init": t["cfg"]}));
                    let ms = sut.main.mstate();
                    if S::COMPARE_MSTATE && ms != t["st"] {
                        st.drift += 1;
                        if st.first_drift.len() < 5 {
                            st.first_drift.push(json!({"what":"init","spec":t["st"],"code":ms}));
                        }
                    }
                    nodes.insert(key.clone(), Node { sut, hid: next_hid, kind: String::new() });
                    next_hid += 1;
                    st.states += 1;
                    if let Some(p) = pending.remove(&key) {
                        work.extend(p);
                    }
                }
            }
            Some("t") => {
                if st.transitions >= opts.max_transitions && opts.max_transitions > 0 {
                    continue;
                }
                let prekey = t["pre"].to_string();
                if !nodes.contains_key(&prekey) {
                    pending.entry(prekey).or_default().push(t);
                    continue;
                }
                st.transitions += 1;
                let mut tagged = false;
                if let Some(tags) = t["tags"].as_array() {
                    for tg in tags {
                        if let Some(s) = tg.as_str() {
                            *st.tags.entry(s.to_string()).or_insert(0) += 1;
                            tagged = true;
                        }
                    }
                }
                if tagged {
                    st.tagged_distinct += 1;
                }
                let postkey = t["post"].to_string();
                for rep in 0..opts.reps.max(1) {
                    let (mut sut, hid) = {
                        let n = &nodes[&prekey];
                        (n.sut.clone(), n.hid)
                    };
                    let mut op = t["op"].clone();
                    op["rep"] = json!(rep);
                    tid += 1;
                    CALL_TID.store(tid, Ordering::SeqCst);
                    note_call(json!({"hid": hid, "op": op}));
                    let mpre = if opts.mall && mout.is_some() { sut.main.mstate() } else { Value::Null };
                    let rec = sut.apply(&op, None);
                    st.executed += 1;
                    if let (true, Some(m)) = (opts.mall, mout.as_deref_mut()) {
                        if !mall_hdr_written {
                            m.put(&json!({"k":"hdr","s":S::TAG,"cfg":cfg0}));
                            mall_hdr_written = true;
                        }
                        let post = if rec["res"] == "panic" { json!("none") } else { sut.main.mstate() };
                        m.put(&json!({"k":"m","tid":tid,"op":op,"pre":mpre,"post":post,"res":rec["res"]}));
                    }
                    if let Some(tg) = rec["tags"].as_array() {
                        if !tg.is_empty() {
                            st.tagged_distinct += 1;
                            for x in tg {
                                if let Some(sx) = x.as_str() {
                                    *st.tags.entry(sx.to_string()).or_insert(0) += 1;
                                }
                            }
                        }
                    }
                    let mut full = Map::new();
                    full.insert("k".into(), json!("p"));
                    full.insert("s".into(), json!(S::TAG));
                    full.insert("tid".into(), json!(tid));
                    full.insert("hid".into(), json!(hid));
                    full.insert("op".into(), op.clone());
                    let panicked = rec["res"] == "panic";
                    if panicked {
                        st.panics += 1;
                    }
                    let altw = S::is_alt_worthy(&rec);
                    let altkind = rec["res"].as_str().unwrap_or("").to_string();
                    // M-level comparison (diagnostic)
                    let ms = if panicked { Value::Null } else if S::COMPARE_MSTATE { sut.main.mstate() } else { t["post"].clone() };
                    let res_ok = t["res"].is_null() || rec["res"] == t["res"] || rec["mres"] == t["res"];
                    let spec_panics = t["res"] == "panic";
                    if (panicked != spec_panics) || (!panicked && (ms != t["post"] || !res_ok)) {
                        st.drift += 1;
                        full.insert("drift".into(), json!(true));
                        if st.first_drift.len() < 5 {
                            st.first_drift.push(json!({"tid":tid,"op":op,"pre":t["pre"],"spec_post":t["post"],"code_post":ms,
                                                       "spec_res":t["res"],"code_res":rec["res"]}));
                        }
                    }
                    merge_into(&mut full, rec);
                    put_rec(out, &mut last_uid, &sut, Value::Object(full));
                    if panicked {
                        continue;
                    }
                    if rep == 0 && !nodes.contains_key(&postkey) {
                        hist.put(&json!({"hid": next_hid, "parent": hid, "op": op}));
                        nodes.insert(postkey.clone(), Node { sut, hid: next_hid, kind: String::new() });
                        next_hid += 1;
                        st.states += 1;
                        if let Some(p) = pending.remove(&postkey) {
                            work.extend(p);
                        }
                    } else if rep == 0 && altw && (st.alt_states < opts.max_alt) {
                        // two lineages of second representatives per state: the first object left behind by a
                        // failed call / clear (shallow history) and the latest one (deep history)
                        let k0 = format!("0#{}", postkey);
                        let k1 = format!("1#{}", postkey);
                        hist.put(&json!({"hid": next_hid, "parent": hid, "op": op}));
                        if !alts.contains_key(&k0) {
                            alts.insert(k0, vec![Node { sut, hid: next_hid, kind: altkind }]);
                            st.alt_states += 1;
                        } else {
                            if !alts.contains_key(&k1) {
                                st.alt_states += 1;
                            }
                            alts.insert(k1, vec![Node { sut, hid: next_hid, kind: altkind }]);
                        }
                        next_hid += 1;
                    }
                }
            }
            _ => {}
        }
    }
    st.missing = pending.values().map(|v| v.len() as u64).sum();
    drop(lines);
    // pass 2: replay the outgoing transitions of every state that also has a representative left
    // behind by a failed call / a clear ("a later operation behaves as if the failed one had not
    // happened", "after clear() ... any further identical operation sequence").
    // The second representatives are explored further (breadth first, one representative per spec
    // state, at most max_alt of them), so that the lock-step with a fresh object after clear() and the
    // "as if the failed call had not happened" comparison cover whole continuations, not one call.
    let mut expanded: std::collections::HashSet<String> = std::collections::HashSet::new();
    for _round in 0..64 {
        let cand: std::collections::HashSet<String> = alts.keys().filter(|k| !expanded.contains(*k)).cloned().collect();
        if cand.is_empty() {
            break;
        }
        for t in read_json_lines(gen_path) {
            if t["k"] != "t" {
                continue;
            }
            let prekey0 = t["pre"].to_string();
            for lineage in ["0", "1"] {
            let prekey = format!("{}#{}", lineage, prekey0);
            if !cand.contains(&prekey) {
                continue;
            }
            let (mut sut, nhid, nkind) = {
                let n = &alts[&prekey][0];
                (n.sut.clone(), n.hid, n.kind.clone())
            };
            let mut op = t["op"].clone();
            op["rep"] = json!(st.alt_executed % opts.reps.max(1));
            tid += 1;
            CALL_TID.store(tid, Ordering::SeqCst);
            note_call(json!({"hid": nhid, "op": op}));
            let rec = sut.apply(&op, None);
            st.alt_executed += 1;
            let mut full = Map::new();
            full.insert("k".into(), json!("p"));
            full.insert("s".into(), json!(S::TAG));
            full.insert("tid".into(), json!(tid));
            full.insert("hid".into(), json!(nhid));
            full.insert("alt".into(), json!(nkind));
            full.insert("op".into(), op.clone());
            let panicked = rec["res"] == "panic";
            let ms = if panicked { Value::Null } else if S::COMPARE_MSTATE { sut.main.mstate() } else { t["post"].clone() };
            let spec_panics = t["res"] == "panic";
            if (panicked != spec_panics) || (!panicked && ms != t["post"]) {
                st.drift += 1;
                full.insert("drift".into(), json!(true));
                if st.first_drift.len() < 5 {
                    st.first_drift.push(json!({"tid":tid,"alt":true,"op":op,"pre":t["pre"],"spec_post":t["post"],"code_post":ms}));
                }
            }
            merge_into(&mut full, rec);
            put_rec(out, &mut last_uid, &sut, Value::Object(full));
            if panicked {
                continue;
            }
            let postkey = format!("{}#{}", lineage, t["post"]);
            if !alts.contains_key(&postkey) && st.alt_states < opts.max_alt {
                hist.put(&json!({"hid": next_hid, "parent": nhid, "op": op}));
                alts.insert(postkey, vec![Node { sut, hid: next_hid, kind: nkind }]);
                next_hid += 1;
                st.alt_states += 1;
            }
            }
        }
        expanded.extend(cand);
    }
    // binary operations over pairs of materialised states
    if let (Some(pair_op), Some(mout)) = (&opts.pair_op, mout) {
        let mut keys: Vec<&String> = nodes.keys().collect();
        keys.sort();
        // operands must share configuration and hasher: group by universe
        let mut groups: HashMap<usize, Vec<&String>> = HashMap::new();
        for k in &keys {
            groups.entry(nodes[*k].sut.main.uid()).or_default().push(*k);
        }
        let mut gids: Vec<usize> = groups.keys().cloned().collect();
        gids.sort_by_key(|g| groups[g][0].clone());
        let total: u64 = gids.iter().map(|g| (groups[g].len() as u64).pow(2)).sum();
        let mut rng = Prng::new(opts.seed);
        let exhaustive = total <= opts.pair_budget;
        mout.put(&json!({"k":"hdr","s":S::TAG,"cfg":cfg0,"op":pair_op}));
        let mut plan: Vec<(usize, u64, u64)> = vec![];
        if exhaustive {
            for (gi, g) in gids.iter().enumerate() {
                let n = groups[g].len() as u64;
                for c in 0..n * n {
                    plan.push((gi, c / n, c % n));
                }
            }
        } else {
            for _ in 0..opts.pair_budget {
                let gi = rng.below(gids.len() as u64) as usize;
                let n = groups[&gids[gi]].len() as u64;
                plan.push((gi, rng.below(n), rng.below(n)));
            }
        }
        for (gi, ia, ib) in plan {
            let grp = &groups[&gids[gi]];
            let na = &nodes[grp[ia as usize]];
            let nb = &nodes[grp[ib as usize]];
            let mut sut = na.sut.clone();
            let op = sut.main.pair_op(pair_op, &mut rng);
            tid += 1;
            CALL_TID.store(tid, Ordering::SeqCst);
            note_call(json!({"hid": na.hid, "op": op, "other": nb.hid}));
            let b_before = nb.sut.main.mstate();
            let rec = sut.apply(&op, Some(&nb.sut.main));
            st.pairs += 1;
            let mut full = Map::new();
            full.insert("k".into(), json!("p"));
            full.insert("s".into(), json!(S::TAG));
            full.insert("tid".into(), json!(tid));
            full.insert("hid".into(), json!(na.hid));
            full.insert("other".into(), json!(nb.hid));
            full.insert("op".into(), op.clone());
            let mres = if rec["mres"].is_null() { rec["res"].clone() } else { rec["mres"].clone() };
            let post = if rec["res"] == "panic" { json!("none") } else { sut.main.mstate() };
            mout.put(&json!({"k":"m","tid":tid,"op":op,"pre":na.sut.main.mstate(),"b":b_before,"post":post,"res":mres}));
            merge_into(&mut full, rec);
            put_rec(out, &mut last_uid, &sut, Value::Object(full));
        }
    }
    out.flush();
    hist.flush();
    st
}

/// Scenario runner.  Scenario = {"cfg":.., "steps":[{"obj":"a","op":{..},"other":"b"?}, ..]}
/// Objects are created on first use from cfg.  Emits header + one P-record per step, and, if
/// `mout` is given, one M-record per step (op, res, post dump) for M-level trace validation.
pub fn run_scenario<S: Sut>(sc: &Value, out: &mut Out, mut mout: Option<&mut Out>, tid0: u64, sc_id: u64) -> u64 {
    let mut objs: HashMap<String, LockStep<S>> = HashMap::new();
    let mut tid = tid0;
    let mut header_written = false;
    let steps = sc["steps"].as_array().cloned().unwrap_or_default();
    for (step_no, stp) in steps.iter().enumerate() {
        let name = stp["obj"].as_str().unwrap_or("a").to_string();
        for nm in [Some(name.clone()), stp["other"].as_str().map(|s| s.to_string())].into_iter().flatten() {
            if !objs.contains_key(&nm) {
                let sut = LockStep::<S>::new(&sc["cfg"]);
                if !header_written {
                    let mut h = sut.main.header();
                    h["k"] = json!("hdr");
                    h["s"] = json!(S::TAG);
                    h["sc"] = json!(sc_id);
                    out.put(&h);
                    if let Some(m) = mout.as_deref_mut() {
                        m.put(&json!({"k":"hdr","s":S::TAG,"sc":sc_id,"cfg":sc["cfg"], "st": sut.main.mstate()}));
                    }
                    header_written = true;
                }
                objs.insert(nm, sut);
            }
        }
        tid += 1;
        CALL_TID.store(tid, Ordering::SeqCst);
        note_call(json!({"scenario_step": stp}));
        let other = stp["other"].as_str().map(|o| objs[o].main.clone());
        let sut = objs.get_mut(&name).unwrap();
        let mpre = if mout.is_some() { sut.main.mstate() } else { Value::Null };
        let rec = sut.apply(&stp["op"], other.as_ref());
        if rec["skip"] == true {
            continue;
        }
        let mut full = Map::new();
        full.insert("k".into(), json!("p"));
        full.insert("s".into(), json!(S::TAG));
        full.insert("tid".into(), json!(tid));
        full.insert("obj".into(), json!(name));
        full.insert("sc".into(), json!(sc_id));
        full.insert("step".into(), json!(step_no));
        full.insert("op".into(), stp["op"].clone());
        if let Some(m) = mout.as_deref_mut() {
            let mres = if rec["mres"].is_null() { rec["res"].clone() } else { rec["mres"].clone() };
            let mut mr = json!({"k":"m","tid":tid,"obj":name,"op":stp["op"],"res":mres,"pre":mpre,
                            "post": if rec["res"] == "panic" { json!("none") } else { sut.main.mstate() }});
            if let Some(o) = &other {
                mr["b"] = o.mstate();
            }
            if !rec["margs"].is_null() {
                mr["margs"] = rec["margs"].clone();
            }
            m.put(&mr);
        }
        merge_into(&mut full, rec);
        out.put(&Value::Object(full));
    }
    out.flush();
    tid
}

pub fn stats_json(st: &ReplayStats) -> Value {
    json!({"transitions": st.transitions, "executed": st.executed, "drift": st.drift, "states": st.states,
           "alt_states": st.alt_states, "alt_executed": st.alt_executed, "pairs": st.pairs, "missing": st.missing, "panics": st.panics,
           "tags": st.tags, "tagged_distinct": st.tagged_distinct, "first_drift": st.first_drift})
}
