//! vh — conformance harness binding the TLA+ specifications in /verif/spec to the real
//! pdatastructs code (path dependency on /repo, built with --cfg pdatastructs_verif).
mod common;
mod compat;
mod ctor;
mod ext;
mod bl;
mod ck;
mod cms;
mod heap;
mod hll;
mod lc;
mod mem;
mod qf;
mod rs;
mod sizing;
mod td;

use common::*;

#[global_allocator]
static GLOBAL: mem::Counting = mem::Counting;
use serde_json::{json, Value};

fn replay<S: Sut>(args: &[String]) {
    let gen = arg(args, "--gen").expect("--gen");
    let mut out = Out::create(arg(args, "--out").expect("--out"));
    let mut hist = Out::create(arg(args, "--hist").expect("--hist"));
    let mut mout = arg(args, "--mout").map(Out::create);
    let opts = ReplayOpts {
        reps: arg_u64(args, "--reps", 1),
        max_alt: arg_u64(args, "--max-alt", 0),
        pair_budget: arg_u64(args, "--pairs", 0),
        pair_op: arg(args, "--pair-op").map(|s| s.to_string()),
        seed: arg_u64(args, "--seed", 1),
        max_transitions: arg_u64(args, "--max-transitions", 0),
        cfg_extra: arg(args, "--cfg-extra").map(|s| serde_json::from_str(s).expect("--cfg-extra json")),
        mall: args.iter().any(|a| a == "--mall"),
    };
    let st = graph_replay::<S>(gen, &mut out, &mut hist, mout.as_mut(), &opts);
    if let Some(m) = mout.as_mut() {
        m.flush();
    }
    println!("STATS {}", stats_json(&st));
}

fn scenario<S: Sut>(args: &[String]) {
    let inp = arg(args, "--in").expect("--in");
    let mut out = Out::create(arg(args, "--out").expect("--out"));
    let mut mout = arg(args, "--mout").map(Out::create);
    let mut tid = 0;
    let mut n = 0u64;
    for (i, sc) in read_json_lines(inp).enumerate() {
        tid = run_scenario::<S>(&sc, &mut out, mout.as_mut(), tid, i as u64);
        n += 1;
    }
    if let Some(m) = mout.as_mut() {
        m.flush();
    }
    println!("STATS {}", json!({"scenarios": n, "calls": tid}));
}

fn main() {
    let args: Vec<String> = std::env::args().skip(1).collect();
    if args.is_empty() {
        eprintln!("usage: vh <selftest|replay|scenario|drive|...> <structure> [options]");
        std::process::exit(2);
    }
    install_panic_hook();
    if let Err(e) = selftest_rng() {
        eprintln!("TOOL-ERROR: ScriptRng self-test against the linked rand failed: {}", e);
        std::process::exit(2);
    }
    let hang = arg(&args, "--hang").unwrap_or("hang.ndjson").to_string();
    start_watchdog(arg_u64(&args, "--watchdog-ms", 20_000), hang, "vh");
    // a panic raised by the code under test outside `guarded` (while the harness probes or observes an object) is an
    // outcome: one record in the hang file, exit 0; a panic of the harness itself stays a tool error (exit 101)
    let r = std::panic::catch_unwind(|| dispatch(&args));
    if let Err(e) = r {
        let msg = LAST_PANIC.with(|p| p.borrow().clone());
        let loc = msg.rsplit(" @ ").next().unwrap_or("").to_string();
        if foreign_location(&loc) {
            observation_panicked(&msg);
        }
        std::panic::resume_unwind(e);
    }
}

fn dispatch(args: &[String]) {
    let args: Vec<String> = args.to_vec();
    let cmd = args[0].as_str();
    let tag = args.get(1).map(|s| s.as_str()).unwrap_or("");
    match (cmd, tag) {
        ("selftest", _) => println!("selftest ok"),
        ("replay", "qf") => replay::<qf::QfSut>(&args),
        ("scenario", "qf") => scenario::<qf::QfSut>(&args),
        ("drive", "qf") => qf::drive(&args),
        ("replay", "bl") => replay::<bl::BlSut>(&args),
        ("scenario", "bl") => scenario::<bl::BlSut>(&args),
        ("scenario", "hs") => scenario::<bl::HsSut>(&args),
        ("drive", "bl") => bl::drive(&args, false),
        ("drive", "hs") => bl::drive(&args, true),
        ("learn", "bl") => bl::learn(&args),
        ("replay", "cms8") => replay::<cms::CmsSut<u8>>(&args),
        ("replay", "cms16") => replay::<cms::CmsSut<u16>>(&args),
        ("replay", "cms32") => replay::<cms::CmsSut<u32>>(&args),
        ("replay", "cms64") => replay::<cms::CmsSut<u64>>(&args),
        ("replay", "cmsz") => replay::<cms::CmsSut<usize>>(&args),
        ("scenario", "cms8") => scenario::<cms::CmsSut<u8>>(&args),
        ("scenario", "cms16") => scenario::<cms::CmsSut<u16>>(&args),
        ("scenario", "cms32") => scenario::<cms::CmsSut<u32>>(&args),
        ("scenario", "cms64") => scenario::<cms::CmsSut<u64>>(&args),
        ("scenario", "cmsz") => scenario::<cms::CmsSut<usize>>(&args),
        ("drive", "cms") => cms::drive(&args),
        ("learn", "cms") => cms::learn(&args),
        ("replay", "hll") => replay::<hll::HllSut>(&args),
        ("scenario", "hll") => scenario::<hll::HllSut>(&args),
        ("drive", "hll") => hll::drive(&args),
        ("serde", "hll") => hll::serde_docs(&args),
        ("replay", "lc") => replay::<lc::LcSut>(&args),
        ("scenario", "lc") => scenario::<lc::LcSut>(&args),
        ("drive", "lc") => lc::drive(&args),
        ("replay", "heap") => replay::<heap::HeapSut>(&args),
        ("scenario", "heap") => scenario::<heap::HeapSut>(&args),
        ("drive", "heap") => heap::drive(&args),
        ("learn", "heap") => heap::learn(&args),
        ("replay", "rs") => replay::<rs::RsSut>(&args),
        ("scenario", "rs") => scenario::<rs::RsSut>(&args),
        ("drive", "rs") => rs::drive(&args),
        ("rsdist", _) => rs::dist(&args),
        ("rsfreq", _) => rs::freq(&args),
        ("replay", "td") => replay::<td::TdSut>(&args),
        ("scenario", "td") => scenario::<td::TdSut>(&args),
        ("drive", "td") => td::drive(&args),
        ("scenario", "tdr") => scenario::<td::TdRealSut>(&args),
        ("drive", "tdr") => td::drive_real(&args),
        ("rank", "td") => td::rank(&args),
        ("ctor", _) => ctor::run(&args),
        ("ext", _) => ext::run(&args),
        ("compat", _) => compat::run(&args),
        ("sizing", _) => sizing::run(&args),
        ("mem", _) => mem::run(&args),
        ("replay", "ck") => replay::<ck::CkSut>(&args),
        ("scenario", "ck") => scenario::<ck::CkSut>(&args),
        ("drive", "ck") => ck::drive(&args),
        _ => {
            eprintln!("unknown command {:?}", &args[..args.len().min(2)]);
            std::process::exit(2);
        }
    }
    let _: Value = Value::Null;
}
