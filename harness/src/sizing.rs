//! C07: accuracy-target constructors over the (n, p) plane emitted by Gen_Sizing.
use crate::common::*;
use pdatastructs::filters::bloomfilter::BloomFilter;
use pdatastructs::filters::cuckoofilter::CuckooFilter;
use pdatastructs::filters::Filter;
use rand::SeedableRng;
use rand_chacha::ChaChaRng;
use serde_json::{json, Value};

const PROBES: u64 = 20_000;

fn bloom(n: usize, p: f64, seed: u64) -> Value {
    let made = guarded(|| BloomFilter::<u64, CtlBH>::with_properties_and_hash(n, p, CtlBH::mix(seed)));
    let mut f = match made {
        Ok(f) => f,
        Err(m) => return json!({"res": "panic", "where": "constructor", "panic": m, "k": 0, "m": 0}),
    };
    let (k, m) = (f.k(), f.m());
    let r = guarded(|| {
        let mut failed = 0u64;
        for i in 0..n as u64 {
            if f.insert(&mix64(i)).is_err() {
                failed += 1;
            }
        }
        let missing = (0..n as u64).filter(|i| !f.query(&mix64(*i))).count();
        let fp = (0..PROBES).filter(|i| f.query(&mix64(*i + (1 << 40)))).count();
        let len = f.len();
        let _ = f.is_empty();
        (failed, missing, fp, len, f.verif_bits().len())
    });
    match r {
        Ok((failed, missing, fp, len, ones)) => {
            // the textbook false-positive rate of a Bloom filter with the k and m the constructor chose, after n inserts:
            // (1 - e^(-kn/m))^k, against the bound 1.3 p; TLC has no exp / ln, so both are handed over as milli-nats
            let (kf, mf, nf) = (k as f64, m as f64, n as f64);
            let ln_rate = kf * (1.0 - (-kf * nf / mf).exp()).ln();
            let ln_bound = (1.3 * p).ln();
            json!({"res": "ok", "k": k.min(1 << 30), "m": m.min(1 << 30), "failed": failed, "missing": missing,
                   "fp": fp, "probes": PROBES, "len": len.min(1 << 30), "ones": ones,
                   "ln_rate_milli": (ln_rate * 1000.0).floor().max(-2.0e9) as i64, "ln_bound_milli": (ln_bound * 1000.0).ceil() as i64})
        }
        Err(msg) => json!({"res": "panic", "where": "use", "panic": msg, "k": k.min(1 << 30), "m": m.min(1 << 30)}),
    }
}
fn cuckoo(n: usize, p: f64, eight: bool, seed: u64) -> Value {
    let rng = ChaChaRng::seed_from_u64(seed);
    let made = guarded(|| {
        if eight {
            CuckooFilter::<u64, ChaChaRng, CtlBH>::with_properties_and_hash_8(p, n, rng, CtlBH::mix(seed))
        } else {
            CuckooFilter::<u64, ChaChaRng, CtlBH>::with_properties_and_hash_4(p, n, rng, CtlBH::mix(seed))
        }
    });
    let mut f = match made {
        Ok(f) => f,
        Err(m) => return json!({"res": "panic", "where": "constructor", "panic": m}),
    };
    let (b, nb, l) = (f.bucketsize(), f.n_buckets(), f.l_fingerprint());
    let r = guarded(|| {
        let mut full = 0u64;
        for i in 0..n as u64 {
            if f.insert(&mix64(i)).is_err() {
                full += 1;
            }
        }
        let missing = (0..n as u64).filter(|i| !f.query(&mix64(*i))).count();
        let fp = (0..PROBES).filter(|i| f.query(&mix64(*i + (1 << 40)))).count();
        (full, missing, fp, f.len())
    });
    match r {
        Ok((full, missing, fp, len)) => json!({"res": "ok", "bucketsize": b, "n_buckets": nb.min(1 << 30), "l": l, "full": full, "missing": missing,
                                               "fp": fp, "probes": PROBES, "len": len}),
        Err(msg) => json!({"res": "panic", "where": "use", "panic": msg, "bucketsize": b, "n_buckets": nb.min(1 << 30), "l": l}),
    }
}
pub fn run(args: &[String]) {
    let gen = arg(args, "--gen").expect("--gen");
    let mut out = Out::create(arg(args, "--out").expect("--out"));
    let seed = arg_u64(args, "--seed", 1);
    out.put(&json!({"k":"hdr","s":"sizing"}));
    let (mut n_pts, mut kdrift) = (0u64, 0u64);
    for d in read_json_lines(gen) {
        if d["k"] != "pt" {
            continue;
        }
        n_pts += 1;
        let n = d["n"].as_u64().unwrap() as usize;
        let (a, c) = (d["a"].as_u64().unwrap(), d["c"].as_u64().unwrap());
        let pexp = d["pexp"].as_u64().unwrap_or(0);
        let p = if pexp > 0 { 2f64.powi(-(pexp as i32)) } else { a as f64 / c as f64 };
        note_call(json!({"pt": d}));
        let bl = bloom(n, p, seed);
        if bl["k"] != d["kspec"] {
            kdrift += 1; // the code's k differs from the spec's K(p): mechanism drift, not a verdict
        }
        out.put(&json!({"k":"p","s":"sizing","tid":n_pts,"n":n,"a":a,"c":c,"pexp":pexp,"kspec":d["kspec"],"bloom":bl,
                        "ck4": cuckoo(n, p, false, seed), "ck8": cuckoo(n, p, true, seed)}));
    }
    out.flush();
    println!("STATS {}", json!({"points": n_pts, "kdrift": kdrift}));
}
