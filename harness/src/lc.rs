//! LossyCounter under test.
use crate::common::*;
use pdatastructs::topk::lossycounter::LossyCounter;
use serde_json::{json, Value};

#[derive(Clone)]
pub struct LcSut {
    pub c: LossyCounter<u64>,
    pub ne: usize,
    pub d: u64,
    pub en: u64,
    pub ed: u64,
    pub ghost: Vec<u64>,
}
impl LcSut {
    fn queries(&self, c: &LossyCounter<u64>) -> Vec<Vec<u64>> {
        (0..=self.d)
            .map(|a| {
                let mut v: Vec<u64> = c.query(a as f64 / self.d as f64).collect();
                v.sort_unstable();
                v
            })
            .collect()
    }
}
impl Sut for LcSut {
    fn config(&self) -> Value {
        json!([self.c.width(), self.c.epsilon().to_bits().to_string()])
    }
    const TAG: &'static str = "lc";
    fn new(cfg: &Value) -> Self {
        let ne = cfg["ne"].as_u64().unwrap() as usize;
        let d = cfg["d"].as_u64().unwrap_or(12);
        // eps_num / eps_den win over width (the small models carry their width and get the epsilon as an extra)
        let (c, en, ed) = if let (Some(en), Some(ed)) = (cfg["eps_num"].as_u64(), cfg["eps_den"].as_u64()) {
            (LossyCounter::with_epsilon(en as f64 / ed as f64), en, ed)
        } else {
            let w = cfg["width"].as_u64().unwrap();
            (LossyCounter::with_width(w as usize), 1, w)
        };
        LcSut { c, ne, d, en, ed, ghost: vec![0; ne] }
    }
    fn uid(&self) -> usize {
        self.ne * 1000003 + (self.ed as usize) * 1009 + self.en as usize
    }
    fn header(&self) -> Value {
        json!({"ne": self.ne, "d": self.d, "width": self.c.width(), "en": self.en, "ed": self.ed})
    }
    fn is_alt_worthy(rec: &Value) -> bool {
        rec["res"] == "cleared"
    }
    fn apply(&mut self, op: &Value, _other: Option<&Self>) -> Value {
        let name = op["name"].as_str().unwrap();
        if op["skip"].as_bool().unwrap_or(false) {
            // bulk part of a long stream: executed, not recorded
            let e = op["e"].as_u64().unwrap();
            let _ = guarded(|| self.c.add(e));
            self.ghost[(e - 1) as usize] += 1;
            return json!({"skip": true});
        }
        let ghost_pre = self.ghost.clone();
        let q_pre = self.queries(&self.c);
        let n_pre = self.c.n();
        let twin = self.c.clone();
        let mut rec = json!({});
        let res: String = match name {
            "add" => {
                let e = op["e"].as_u64().unwrap();
                rec["elem"] = json!(e);
                match guarded(|| self.c.add(e)) {
                    Ok(r) => {
                        self.ghost[(e - 1) as usize] += 1;
                        if r { "new".into() } else { "tracked".into() }
                    }
                    Err(m) => {
                        rec["panic"] = json!(m);
                        "panic".into()
                    }
                }
            }
            "clear" => match guarded(|| self.c.clear()) {
                Ok(()) => {
                    for g in self.ghost.iter_mut() {
                        *g = 0;
                    }
                    "cleared".into()
                }
                Err(m) => {
                    rec["panic"] = json!(m);
                    "panic".into()
                }
            },
            _ => panic!("tool error: unknown op {}", name),
        };
        rec["res"] = json!(res);
        rec["ghost_pre"] = json!(ghost_pre);
        rec["ghost_post"] = json!(self.ghost);
        rec["n_pre"] = json!(n_pre);
        rec["q_pre"] = json!(q_pre);
        if res != "panic" {
            rec["n_post"] = json!(self.c.n());
            rec["q_post"] = json!(self.queries(&self.c));
        }
        rec["twin_ok"] = json!(self.queries(&twin) == q_pre && twin.n() == n_pre);
        rec
    }
    fn mstate(&self) -> Value {
        let mut known = vec![(0u64, -1i64); self.ne];
        for (k, f, d) in self.c.verif_entries() {
            if (k as usize) >= 1 && (k as usize) <= self.ne {
                known[(k - 1) as usize] = (f as u64, d as i64);
            }
        }
        json!({"n": self.c.n(), "known": known})
    }
}

/// E3 driver: long streams (most adds executed silently, records at window boundaries +-1 and
/// every 97th prefix), widths to 500, non-reciprocal epsilons, adversarial boundary-straddling streams.
pub fn drive(args: &[String]) {
    let seed = arg_u64(args, "--seed", 1);
    let n_sc = arg_u64(args, "--scenarios", 20);
    let max_n = arg_u64(args, "--max-n", 3000);
    let mut out = Out::create(arg(args, "--out").expect("--out"));
    let mut rng = Prng::new(seed ^ 0x10c);
    for sci in 0..n_sc {
        // one scenario in five: a tracked element pinned to every window boundary among never-repeating
        // elements (large alphabet) -- the stream that stresses the table bound
        let pinned = sci % 5 == 4;
        let ne = if pinned { 150 + rng.below(200) } else { [2u64, 3, 5, 10, 30, 60][rng.below(6) as usize] };
        let (cfg, width) = match rng.below(4) {
            0 => {
                let (en, ed) = [(3u64, 10u64), (1, 3), (2, 7), (1, 10), (9, 10), (1, 100), (7, 100), (3, 13), (4, 17), (10, 41), (3, 10), (7, 100)][rng.below(12) as usize];
                let w = ((ed as f64) / (en as f64)).ceil() as u64;
                (json!({"ne": ne, "eps_num": en, "eps_den": ed, "d": 12}), w)
            }
            _ => {
                let w = match rng.below(4) {
                    0 => 1 + rng.below(4),
                    1 => 5 + rng.below(20),
                    2 => 50 + rng.below(100),
                    _ => 100 + rng.below(400),
                };
                (json!({"ne": ne, "width": w, "d": 12}), w)
            }
        };
        let (cfg, width) = if pinned {
            let w = [4u64, 10, 20, 7][rng.below(4) as usize];
            (json!({"ne": ne, "width": w, "d": 12}), w)
        } else {
            (cfg, width)
        };
        let n = if pinned { (ne - 1).min(max_n) } else { (width * (3 + rng.below(12)) + rng.below(width + 1)).min(max_n).max(10) };
        let shape = if pinned { 4 } else { rng.below(4) };
        let mut fresh = 1u64;
        let mut steps: Vec<Value> = vec![];
        for i in 1..=n {
            let e = match shape {
                0 => 1 + rng.below(ne),
                1 => {
                    // skewed
                    let r = rng.below(100);
                    if r < 50 { 1 } else if r < 75 { 2 % ne + 1 } else { 1 + rng.below(ne) }
                }
                2 => {
                    // adversarial: element 1 occurs right after every window boundary, the rest cycles
                    if i % width == 1 % width { 1 } else { 2 + (i % (ne - 1).max(1)) }.min(ne)
                }
                4 => {
                    if i % width == 0 || i == 1 { 1 } else { fresh += 1; fresh.min(ne) }
                }
                _ => 1 + (i % ne),
            };
            let record = i <= 8 || i % width <= 1 || i % width == width - 1 || i % 97 == 0 || i == n;
            steps.push(json!({"obj": "a", "op": {"name":"add","e": e, "skip": !record}}));
            if rng.below(if n <= 300 { 50 } else { 3000 }) == 0 {
                steps.push(json!({"obj": "a", "op": {"name":"clear"}}));
            }
        }
        out.put(&json!({"sc": sci, "cfg": cfg, "steps": steps}));
    }
    // configuration sweep: every width 1..=sweep (both constructors), a window and a half of stream, clear, reuse -
    // the stored epsilon / width pair must survive clear() for every width, not only the sampled ones
    let sweep = arg_u64(args, "--sweep", 160);
    let mut sci = n_sc;
    for w in 1..=sweep {
        let ne = 3u64;
        let mut steps: Vec<Value> = vec![];
        let n1 = w + w / 2 + 1;
        for i in 1..=n1.min(40) {
            steps.push(json!({"obj": "a", "op": {"name":"add","e": 1 + (i % ne), "skip": false}}));
        }
        steps.push(json!({"obj": "a", "op": {"name":"clear"}}));
        for i in 1..=(w + 2).min(40) {
            steps.push(json!({"obj": "a", "op": {"name":"add","e": 1 + ((i * 2) % ne), "skip": false}}));
        }
        out.put(&json!({"sc": sci, "cfg": {"ne": ne, "width": w, "d": 12}, "steps": steps}));
        sci += 1;
    }
    out.flush();
    println!("STATS {}", json!({"scenarios": sci}));
}
