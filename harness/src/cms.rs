//! CountMinSketch under test, on all five counter types.
use crate::common::*;
use pdatastructs::countminsketch::CountMinSketch;
use pdatastructs::hash_utils::HashIterBuilder;
use pdatastructs::num_traits::{CheckedAdd, One, Unsigned, Zero};
use serde_json::{json, Value};
use std::cell::RefCell;
use std::collections::HashMap;
use std::rc::Rc;

pub trait Ctr: CheckedAdd + Clone + One + Ord + Unsigned + Zero + 'static {
    const NAME: &'static str;
    const MAXV: u64;
    fn from_u64(x: u64) -> Self;
    fn to_u64(&self) -> u64;
}
macro_rules! ctr {
    ($t:ty, $n:expr) => {
        impl Ctr for $t {
            const NAME: &'static str = $n;
            const MAXV: u64 = <$t>::MAX as u64;
            fn from_u64(x: u64) -> Self {
                x as $t
            }
            fn to_u64(&self) -> u64 {
                *self as u64
            }
        }
    };
}
ctr!(u8, "u8");
ctr!(u16, "u16");
ctr!(u32, "u32");
ctr!(u64, "u64");
ctr!(usize, "usize");

pub struct Universe {
    pub w: usize,
    pub d: usize,
    pub bh: CtlBH,
    pub keys: Vec<u64>,
    pub pv: Vec<Vec<usize>>,
    pub by_h: HashMap<(usize, usize), Vec<usize>>,
}
thread_local! { static UCACHE: RefCell<HashMap<String, Rc<Universe>>> = RefCell::new(HashMap::new()); }

fn posvec(w: usize, d: usize, bh: &CtlBH, key: u64) -> Vec<usize> {
    HashIterBuilder::new(w, d, bh.clone()).iter_for(&key).collect()
}
pub fn learn_fs(w: usize, d: usize, bh: &CtlBH) -> Vec<u64> {
    let b = HashIterBuilder::new(w, d, bh.clone());
    (0..d).map(|i| b.f(i)).collect()
}
fn build_universe(cfg: &Value) -> Rc<Universe> {
    let ck = cfg.to_string();
    if let Some(u) = UCACHE.with(|c| c.borrow().get(&ck).cloned()) {
        return u;
    }
    let w = cfg["w"].as_u64().unwrap() as usize;
    let d = cfg["d"].as_u64().unwrap() as usize;
    let u = if let Some(ks) = cfg["keys"].as_array() {
        let bh = CtlBH::from_json(&cfg["hasher"]);
        let keys: Vec<u64> = ks.iter().map(|x| x.as_u64().unwrap()).collect();
        let pv = keys.iter().map(|&x| posvec(w, d, &bh, x)).collect();
        Universe { w, d, bh, keys, pv, by_h: HashMap::new() }
    } else {
        let want: Vec<u64> = cfg["fs"].as_array().unwrap().iter().map(|x| x.as_u64().unwrap()).collect();
        let reps = cfg["reps"].as_u64().unwrap_or(2) as usize;
        let mut bh = None;
        for seed in 0..400000u64 {
            let c = CtlBH::mix(seed);
            if learn_fs(w, d, &c) == want {
                bh = Some(c);
                break;
            }
        }
        let bh = bh.unwrap_or_else(|| probe_failed("no hasher seed realises the requested shift vector"));
        let fs = learn_fs(w, d, &bh);
        let mut by_h: HashMap<(usize, usize), Vec<usize>> = HashMap::new();
        let (mut keys, mut pvs) = (vec![], vec![]);
        let need = w * w * reps;
        let (mut have, mut key) = (0, 0u64);
        while have < need && key < 1_000_000 {
            key += 1;
            let pv = posvec(w, d, &bh, key);
            let h1 = (pv[0] + w - (fs[0] as usize % w)) % w;
            let h2s: Vec<usize> = if d >= 2 && w > 1 { vec![(pv[1] + 2 * w - h1 - (fs[1] as usize % w)) % w] } else { (0..w).collect() };
            let mut used = false;
            for h2 in h2s {
                let v = by_h.entry((h1, h2)).or_default();
                if v.len() < reps {
                    v.push(keys.len());
                    have += 1;
                    used = true;
                }
            }
            if used {
                keys.push(key);
                pvs.push(pv);
            }
        }
        if have < need {
            probe_failed("key search did not realise every (h1, h2) pair of the hashing model");
        }
        Universe { w, d, bh, keys, pv: pvs, by_h }
    };
    let u = Rc::new(u);
    UCACHE.with(|c| c.borrow_mut().insert(ck, u.clone()));
    u
}

pub struct CmsSut<C: Ctr> {
    pub s: CountMinSketch<u64, C, CtlBH>,
    pub u: Rc<Universe>,
    pub ghost: Vec<u64>,
    pub dead: bool,
}
impl<C: Ctr> Clone for CmsSut<C> {
    fn clone(&self) -> Self {
        CmsSut { s: self.s.clone(), u: self.u.clone(), ghost: self.ghost.clone(), dead: self.dead }
    }
}
impl<C: Ctr> CmsSut<C> {
    fn key_index(&self, op: &Value) -> usize {
        if let Some(k) = op["key"].as_u64() {
            k as usize
        } else {
            let h1 = op["h1"].as_u64().unwrap() as usize;
            let h2 = op["h2"].as_u64().unwrap() as usize;
            let rep = op["rep"].as_u64().unwrap_or(0) as usize;
            let v = &self.u.by_h[&(h1, h2)];
            v[rep % v.len()]
        }
    }
    fn q_of(&self, s: &CountMinSketch<u64, C, CtlBH>) -> Vec<u64> {
        self.u.keys.iter().map(|k| s.query_point(k).to_u64()).collect()
    }
    fn fresh(&self) -> CountMinSketch<u64, C, CtlBH> {
        CountMinSketch::with_params_and_hasher(self.u.w, self.u.d, self.u.bh.clone())
    }
}
impl<C: Ctr> Sut for CmsSut<C> {
    fn config(&self) -> Value {
        json!([self.s.w(), self.s.d()])
    }
    const TAG: &'static str = "cms";
    fn new(cfg: &Value) -> Self {
        let u = build_universe(cfg);
        let n = u.keys.len();
        CmsSut { s: CountMinSketch::with_params_and_hasher(u.w, u.d, u.bh.clone()), u, ghost: vec![0; n], dead: false }
    }
    fn uid(&self) -> usize {
        Rc::as_ptr(&self.u) as usize
    }
    fn header(&self) -> Value {
        json!({"w": self.u.w, "d": self.u.d, "nkeys": self.u.keys.len(), "ctype": C::NAME,
               "cmax": if C::MAXV < (1 << 30) { C::MAXV } else { 0 },
               "keys": self.u.keys.iter().map(|k| k.to_string()).collect::<Vec<_>>(), "hasher": self.u.bh.to_json().to_string()})
    }
    fn is_alt_worthy(rec: &Value) -> bool {
        rec["res"] == "cleared"
    }
    fn apply(&mut self, op: &Value, other: Option<&Self>) -> Value {
        let mut rec = json!({});
        if self.dead || other.map(|o| o.dead).unwrap_or(false) {
            rec["res"] = json!("dead");
            return rec;
        }
        let ghost_pre = self.ghost.clone();
        let (q_pre, empty_pre) = (self.q_of(&self.s), self.s.is_empty());
        let twin = self.s.clone();
        let name = op["name"].as_str().unwrap();
        let res: String = match name {
            "add" => {
                let ki = self.key_index(op);
                let key = self.u.keys[ki];
                let n = op["n"].as_u64().unwrap();
                rec["key"] = json!(ki + 1);
                let nn = C::from_u64(n);
                let r = if n == 1 && op["via_add"].as_bool().unwrap_or(false) { guarded(|| self.s.add(&key)) } else { guarded(|| self.s.add_n(&key, &nn)) };
                match r {
                    Ok(v) => {
                        self.ghost[ki] += n;
                        rec["ret"] = json!(v.to_u64());
                        rec["margs"] = json!({"pv": self.u.pv[ki], "ret": v.to_u64()});
                        "ok".into()
                    }
                    Err(m) => {
                        rec["panic"] = json!(m);
                        rec["margs"] = json!({"pv": self.u.pv[ki], "ret": 0});
                        // the refused add must not have taken anything away from what was counted before it
                        if let Ok(q) = guarded(|| self.q_of(&self.s)) {
                            rec["q_panic"] = json!(q);
                        }
                        self.dead = true;
                        "panic".into()
                    }
                }
            }
            "clear" => match guarded(|| self.s.clear()) {
                Ok(()) => {
                    for g in self.ghost.iter_mut() {
                        *g = 0;
                    }
                    "cleared".into()
                }
                Err(m) => {
                    rec["panic"] = json!(m);
                    self.dead = true;
                    "panic".into()
                }
            },
            "merge" => {
                let o = other.expect("merge needs other");
                let o_before = (o.q_of(&o.s), o.s.verif_table().iter().map(|c| c.to_u64()).collect::<Vec<_>>());
                rec["ghost_other"] = json!(o.ghost);
                // reference: a fresh sketch that receives A's stream followed by B's stream
                let mut reff = self.fresh();
                let built = guarded(|| {
                    for (k, c) in self.ghost.iter().enumerate().chain(o.ghost.iter().enumerate()) {
                        if *c > 0 {
                            reff.add_n(&self.u.keys[k], &C::from_u64(*c));
                        }
                    }
                });
                if built.is_ok() {
                    rec["ref_q"] = json!(self.q_of(&reff));
                    rec["ref_empty"] = json!(reff.is_empty());
                }
                let r = guarded(|| self.s.merge(&o.s));
                rec["other_same"] = json!(o_before == (o.q_of(&o.s), o.s.verif_table().iter().map(|c| c.to_u64()).collect::<Vec<_>>()));
                match r {
                    Ok(()) => {
                        for (i, c) in o.ghost.iter().enumerate() {
                            self.ghost[i] += *c;
                        }
                        "ok".into()
                    }
                    Err(m) => {
                        rec["panic"] = json!(m);
                        if let Ok(q) = guarded(|| self.q_of(&self.s)) {
                            rec["q_panic"] = json!(q);
                        }
                        self.dead = true;
                        "panic".into()
                    }
                }
            }
            _ => panic!("tool error: unknown op {}", name),
        };
        rec["res"] = json!(res);
        rec["ghost_pre"] = json!(ghost_pre);
        rec["ghost_post"] = json!(self.ghost);
        rec["q_pre"] = json!(q_pre);
        rec["empty_pre"] = json!(empty_pre);
        if res != "panic" {
            rec["q_post"] = json!(self.q_of(&self.s));
            rec["empty_post"] = json!(self.s.is_empty());
        }
        rec["twin_ok"] = json!(self.q_of(&twin) == q_pre && twin.is_empty() == empty_pre);
        rec
    }
    fn mstate(&self) -> Value {
        let t: Vec<u64> = self.s.verif_table().iter().map(|c| c.to_u64()).collect();
        let rows: Vec<Vec<u64>> = (0..self.u.d).map(|r| t[r * self.u.w..(r + 1) * self.u.w].to_vec()).collect();
        json!({"t": rows})
    }
}

/// E3 driver: w != d shapes, long streams, interleaved merges and clears, real and
/// collision-forcing hashers; small counter types driven to overflow.
pub fn drive(args: &[String]) {
    let seed = arg_u64(args, "--seed", 1);
    let n_sc = arg_u64(args, "--scenarios", 20);
    let small = arg_u64(args, "--cmax", 0); // counter max of the type the scenarios will run on (0 = large)
    let mut out = Out::create(arg(args, "--out").expect("--out"));
    let mut rng = Prng::new(seed ^ 0xc35);
    for sci in 0..n_sc {
        let (w, d) = match rng.below(6) {
            0 => (1, 1 + rng.below(4)),
            1 => (1 + rng.below(4), 1),
            2 => (2 + rng.below(6), 2 + rng.below(6)),
            3 => (1 + rng.below(300), 1 + rng.below(8)),
            4 => (1 + rng.below(8), 1 + rng.below(20)),
            _ => (272, 3),
        };
        let bh = match rng.below(3) {
            0 => CtlBH::mix(rng.next()),
            1 => CtlBH::collide(rng.next(), 1 + rng.below(5) as u32),
            _ => CtlBH::identity(),
        };
        let nkeys = 8 + rng.below(9) as usize;
        let mut keys: Vec<u64> = vec![];
        while keys.len() < nkeys {
            let x = match rng.below(7) { 0..=2 => rng.below(40), 3 => boundary_key(&mut rng), _ => rng.next() };
            if !keys.contains(&x) {
                keys.push(x);
            }
        }
        let cfg = json!({"w": w, "d": d, "hasher": bh.to_json(), "keys": keys});
        let mut steps: Vec<Value> = vec![];
        // one scenario in three opens with the motif "content arrives by merge only": b is filled, merged into the fresh a,
        // a is cleared, used again and merged again (a structure that tracks "was I touched" must count a merge as a touch)
        if sci % 3 == 1 {
            steps.push(json!({"obj": "b", "op": {"name":"add","key": 0, "n": 2, "via_add": false}}));
            steps.push(json!({"obj": "b", "op": {"name":"add","key": 1 % nkeys, "n": 1, "via_add": true}}));
            steps.push(json!({"obj": "a", "other": "b", "op": {"name":"merge"}}));
            steps.push(json!({"obj": "a", "op": {"name":"clear"}}));
            steps.push(json!({"obj": "a", "op": {"name":"add","key": 2 % nkeys, "n": 1, "via_add": true}}));
            steps.push(json!({"obj": "a", "other": "b", "op": {"name":"merge"}}));
            steps.push(json!({"obj": "a", "op": {"name":"clear"}}));
            steps.push(json!({"obj": "a", "other": "b", "op": {"name":"merge"}}));
        }
        let single = rng.chance(1, 8); // single-distinct-element streams
        for _ in 0..(20 + rng.below(80)) {
            let x = rng.below(100);
            let obj = ["a", "b"][rng.below(2) as usize];
            if x < 78 {
                let n = match rng.below(6) {
                    0 => 1 + rng.below(5),
                    1 if small > 0 => small / (2 + rng.below(6)),
                    1 => 1000 + rng.below(100000),
                    _ => 1,
                };
                let key = if single { 0 } else { rng.below(nkeys as u64) };
                steps.push(json!({"obj": obj, "op": {"name":"add","key": key, "n": n.max(1), "via_add": rng.chance(1, 2)}}));
            } else if x < 93 {
                let (a, b) = if rng.chance(1, 2) { ("a", "b") } else { ("b", "a") };
                steps.push(json!({"obj": a, "other": b, "op": {"name":"merge"}}));
            } else {
                steps.push(json!({"obj": obj, "op": {"name":"clear"}}));
            }
        }
        out.put(&json!({"sc": sci, "cfg": cfg, "steps": steps}));
    }
    out.flush();
    println!("STATS {}", json!({"scenarios": n_sc}));
}

pub fn learn(args: &[String]) {
    let w = arg_u64(args, "--w", 3) as usize;
    let d = arg_u64(args, "--d", 2) as usize;
    let n = arg_u64(args, "--n", 3);
    let seed0 = arg_u64(args, "--seed", 1);
    let mut seen: Vec<Vec<u64>> = vec![];
    let mut s = seed0 * 1000;
    while (seen.len() as u64) < n && s < seed0 * 1000 + 100000 {
        let fs = learn_fs(w, d, &CtlBH::mix(s));
        if !seen.contains(&fs) {
            seen.push(fs);
        }
        s += 1;
    }
    println!("STATS {}", json!({"fs": seen}));
}
