//! TDigest under test (all four scale functions).
use crate::common::*;
use pdatastructs::tdigest::{TDigest, K0, K1, K2, K3};
use serde_json::{json, Value};

const FP: f64 = 65536.0;
const NAN_FP: i64 = -999_999_999;
const INF: i64 = 1_000_000;

#[derive(Clone)]
pub enum Dg {
    K0(TDigest<K0>),
    K1(TDigest<K1>),
    K2(TDigest<K2>),
    K3(TDigest<K3>),
}
macro_rules! dg {
    ($s:expr, $d:ident => $e:expr) => {
        match $s {
            Dg::K0($d) => $e,
            Dg::K1($d) => $e,
            Dg::K2($d) => $e,
            Dg::K3($d) => $e,
        }
    };
}
pub fn make(scale: &str, delta: f64, mb: usize) -> Dg {
    match scale {
        "K0" => Dg::K0(TDigest::new(K0::new(delta), mb)),
        "K1" => Dg::K1(TDigest::new(K1::new(delta), mb)),
        "K2" => Dg::K2(TDigest::new(K2::new(delta), mb)),
        "K3" => Dg::K3(TDigest::new(K3::new(delta), mb)),
        _ => panic!("tool error: unknown scale function"),
    }
}
fn fx(v: f64) -> i64 {
    if v.is_nan() {
        NAN_FP
    } else {
        (v * FP).floor() as i64
    }
}
thread_local! { static WEXP: std::cell::Cell<i32> = std::cell::Cell::new(4); }
/// value * 2^wexp as an exact integer (weights are dyadic: w = w16 / 2^wexp)
fn sc16(v: f64) -> i64 {
    let s = v * 2f64.powi(WEXP.with(|w| w.get()));
    if s.is_finite() && s == s.round() && s.abs() < 2.0e9 {
        s as i64
    } else {
        -777_777_777 // not representable on the 1/16 grid: cannot match any expected value
    }
}

#[derive(Clone)]
pub struct Ghost {
    pub w16: i64,
    pub xw16: i64,
    pub mn: i64,
    pub mx: i64,
    pub any: bool,
    pub unit: bool,
    pub n: i64,
}
impl Ghost {
    fn fresh() -> Self {
        Ghost { w16: 0, xw16: 0, mn: INF, mx: -INF, any: false, unit: true, n: 0 }
    }
    fn json(&self) -> Value {
        json!({"w16": self.w16, "xw16": self.xw16, "mn": self.mn, "mx": self.mx, "any": self.any, "unit": self.unit, "n": self.n})
    }
}

#[derive(Clone)]
pub struct TdSut {
    pub d: Dg,
    pub scale: String,
    pub dn: u64,
    pub dd: u64,
    pub mb: usize,
    pub qd: i64,
    pub xlo2: i64,
    pub xn: i64,
    pub ghost: Ghost,
    pub reads: u64,
    pub wexp: i32,
    /// C19 lock-step: after a clear(), a freshly constructed digest that receives the same calls
    pub shadow: Option<Dg>,
}
impl TdSut {
    fn layout(&self, d: &Dg) -> Value {
        WEXP.with(|w| w.set(self.wexp));
        let (cs, bl, ns) = dg!(d, x => x.verif_layout());
        let conv = |v: &Vec<(f64, f64)>| v.iter().map(|(c, s)| vec![sc16(*c), sc16(*s)]).collect::<Vec<_>>();
        let (mn, mx) = dg!(d, x => (x.min(), x.max()));
        json!({"cs": conv(&cs), "bl": conv(&bl), "ns": ns,
               "mn": if mn.is_finite() { mn as i64 } else { INF }, "mx": if mx.is_finite() { mx as i64 } else { -INF }})
    }
    /// all public read methods, evaluated on a clone (reads trigger merges)
    fn observe(&self) -> Value {
        WEXP.with(|w| w.set(self.wexp));
        let c = self.d.clone();
        // each read method also as the FIRST read after the calls so far, on its own clone: a read that forgot
        // to merge the backlog answers differently there ("any interleaving of reads", "repeated reads identical")
        let (f1, f2, f3, f4, f5, f6) = (self.d.clone(), self.d.clone(), self.d.clone(), self.d.clone(), self.d.clone(), self.d.clone());
        let r = guarded(|| {
            let first = dg!(&f1, d => (0..self.xn).map(|k| fx(d.cdf((self.xlo2 + k) as f64 / 2.0))).collect::<Vec<i64>>());
            let firstq = dg!(&f2, d => (0..=self.qd).map(|a| fx(d.quantile(a as f64 / self.qd as f64))).collect::<Vec<i64>>());
            let first_count = dg!(&f3, d => d.count());
            let first_sum = dg!(&f4, d => d.sum());
            let first_mean = dg!(&f5, d => d.mean());
            let first_ncent = dg!(&f6, d => d.n_centroids());
            dg!(&c, d => {
                let count = d.count();
                let sum = d.sum();
                let mean = d.mean();
                let empty = d.is_empty();
                let ncent = d.n_centroids();
                let (mn, mx) = (d.min(), d.max());
                let q: Vec<i64> = (0..=self.qd).map(|a| fx(d.quantile(a as f64 / self.qd as f64))).collect();
                let cdf: Vec<i64> = (0..self.xn).map(|k| fx(d.cdf((self.xlo2 + k) as f64 / 2.0))).collect();
                let cq: Vec<i64> = (0..=self.qd).map(|a| { let v = d.quantile(a as f64 / self.qd as f64); if v.is_nan() { NAN_FP } else { fx(d.cdf(v)) } }).collect();
                // cdf jumps where several centroids (or min/max) share a value, and quantile() may land a few
                // ulps beside such a point: also record cdf a few ulps of the data range to either side
                let span = mn.abs().max(mx.abs()).max(1.0) * 8.0 * f64::EPSILON;
                let cq_lo: Vec<i64> = (0..=self.qd).map(|a| { let v = d.quantile(a as f64 / self.qd as f64); if v.is_nan() { NAN_FP } else { fx(d.cdf(v - span)) } }).collect();
                let cq_hi: Vec<i64> = (0..=self.qd).map(|a| { let v = d.quantile(a as f64 / self.qd as f64); if v.is_nan() { NAN_FP } else { fx(d.cdf(v + span)) } }).collect();
                // the two infinite query points ("0 below min() and 1 from max() upward", "an empty digest returns 0")
                let cdf_inf: Vec<i64> = vec![fx(d.cdf(f64::NEG_INFINITY)), fx(d.cdf(f64::INFINITY))];
                let q2: Vec<i64> = (0..=self.qd).map(|a| fx(d.quantile(a as f64 / self.qd as f64))).collect();
                let cdf2: Vec<i64> = (0..self.xn).map(|k| fx(d.cdf((self.xlo2 + k) as f64 / 2.0))).collect();
                let reread = q == q2 && cdf == cdf2 && d.count() == count && d.sum() == sum && d.n_centroids() == ncent;
                let same_bits = |a: f64, b: f64| a.to_bits() == b.to_bits() || (a.is_nan() && b.is_nan());
                let first_same = first == cdf && firstq == q && same_bits(first_count, count) && same_bits(first_sum, sum)
                    && same_bits(first_mean, mean) && first_ncent == ncent;
                // resolution: cdf jumps by the total weight of the centroids that share one mean, so
                // cdf(quantile(q)) lies in [q, q + largest such share]
                let (cs, _bl, _ns) = d.verif_layout();
                let tot: f64 = cs.iter().map(|c| c.0).sum();
                let mut share = 0.0f64;
                let mut i = 0;
                while i < cs.len() {
                    let m = cs[i].1 / cs[i].0;
                    let mut g = 0.0;
                    let mut j = i;
                    while j < cs.len() && cs[j].1 / cs[j].0 == m {
                        g += cs[j].0;
                        j += 1;
                    }
                    share = share.max(g / tot);
                    i = j;
                }
                // mean must be exactly sum / count (both exact for these inputs)
                let gw = self.ghost.w16 as f64 / 2f64.powi(self.wexp);
                let gx = self.ghost.xw16 as f64 / 2f64.powi(self.wexp);
                let mean_exact = if self.ghost.any { mean == gx / gw } else { mean.is_nan() };
                json!({"count16": sc16(count), "sum16": sc16(sum), "mean_exact": mean_exact, "empty": empty, "ncent": ncent,
                       "mn": if mn.is_finite() { mn as i64 } else { INF }, "mx": if mx.is_finite() { mx as i64 } else { -INF },
                       "q": q, "cdf": cdf, "cdf_inf": cdf_inf, "cq": cq, "cq_lo": cq_lo, "cq_hi": cq_hi, "reread_same": reread, "first_read_same": first_same,
                       "res_fp": (share * FP).ceil() as i64})
            })
        });
        match r {
            Ok(v) => v,
            Err(m) => json!({"panic": m}),
        }
    }
}
impl Sut for TdSut {
    fn config(&self) -> Value {
        json!([dg!(&self.d, d => d.max_backlog_size())])
    }
    const TAG: &'static str = "td";
    const COMPARE_MSTATE: bool = false;
    fn new(cfg: &Value) -> Self {
        let scale = cfg["scale"].as_str().unwrap_or("K0").to_string();
        let dn = cfg["dn"].as_u64().unwrap_or(4);
        let dd = cfg["dd"].as_u64().unwrap_or(1);
        let mb = cfg["mb"].as_u64().unwrap_or(0) as usize;
        TdSut { d: make(&scale, dn as f64 / dd as f64, mb), scale, dn, dd, mb, qd: cfg["qd"].as_i64().unwrap_or(8),
                xlo2: cfg["xlo2"].as_i64().unwrap_or(-2), xn: cfg["xn"].as_i64().unwrap_or(20), ghost: Ghost::fresh(), reads: 0, wexp: cfg["wexp"].as_i64().unwrap_or(4) as i32, shadow: None }
    }
    fn uid(&self) -> usize {
        (self.dn * 7919 + self.dd * 104729 + self.mb as u64 * 31 + self.scale.as_bytes()[1] as u64) as usize
    }
    fn header(&self) -> Value {
        json!({"scale": self.scale, "dn": self.dn, "dd": self.dd, "mb": self.mb, "qd": self.qd, "xlo2": self.xlo2, "xn": self.xn,
               "wexp": self.wexp, "unitw": if self.wexp <= 30 { 1i64 << self.wexp } else { -1 }})
    }
    fn is_alt_worthy(rec: &Value) -> bool {
        rec["res"] == "cleared"
    }
    fn apply(&mut self, op: &Value, _other: Option<&Self>) -> Value {
        let name = op["name"].as_str().unwrap();
        let skip = op["skip"].as_bool().unwrap_or(false);
        let mut rec = json!({});
        let ghost_pre = self.ghost.json();
        let obs_pre = if skip { Value::Null } else { self.observe() };
        let twin = if skip { None } else { Some(self.d.clone()) };
        let mut tags: Vec<&str> = vec![];
        let lay_pre = if skip { Value::Null } else { self.layout(&self.d) };
        let res: String = match name {
            "ins" => {
                let x = op["x"].as_i64().unwrap();
                let w16 = op["w16"].as_i64().unwrap();
                let w = w16 as f64 / 2f64.powi(self.wexp);
                let plain = w == 1.0 && (self.ghost.n % 2 == 0);
                if let Some(sh) = self.shadow.as_mut() {
                    let _ = if plain { dg!(sh, d => guarded(|| d.insert(x as f64))) } else { dg!(sh, d => guarded(|| d.insert_weighted(x as f64, w))) };
                }
                let r = if plain {
                    dg!(&mut self.d, d => guarded(|| d.insert(x as f64)))
                } else {
                    dg!(&mut self.d, d => guarded(|| d.insert_weighted(x as f64, w)))
                };
                match r {
                    Ok(()) => {
                        if w16 > 0 {
                            let g = &mut self.ghost;
                            g.w16 += w16;
                            g.xw16 += x * w16;
                            g.mn = g.mn.min(x);
                            g.mx = g.mx.max(x);
                            g.any = true;
                            g.unit &= w == 1.0;
                            g.n += 1;
                        } else {
                            tags.push("zero-weight");
                        }
                        "ok".into()
                    }
                    Err(m) => {
                        rec["panic"] = json!(m);
                        "panic".into()
                    }
                }
            }
            "read" => {
                self.reads += 1;
                let which = self.reads % 6;
                if let Some(sh) = self.shadow.as_ref() {
                    let _ = dg!(sh, d => guarded(|| match which {
                        0 => { d.quantile(0.5); }
                        1 => { d.cdf(1.0); }
                        2 => { d.count(); }
                        3 => { d.sum(); }
                        4 => { d.mean(); }
                        _ => { d.n_centroids(); }
                    }));
                }
                let r = dg!(&self.d, d => guarded(|| match which {
                    0 => { d.quantile(0.5); }
                    1 => { d.cdf(1.0); }
                    2 => { d.count(); }
                    3 => { d.sum(); }
                    4 => { d.mean(); }
                    _ => { d.n_centroids(); }
                }));
                match r {
                    Ok(()) => "ok".into(),
                    Err(m) => {
                        rec["panic"] = json!(m);
                        "panic".into()
                    }
                }
            }
            "clear" => match dg!(&mut self.d, d => guarded(|| d.clear())) {
                Ok(()) => {
                    self.ghost = Ghost::fresh();
                    self.shadow = Some(make(&self.scale, self.dn as f64 / self.dd as f64, self.mb));
                    "cleared".into()
                }
                Err(m) => {
                    rec["panic"] = json!(m);
                    "panic".into()
                }
            },
            _ => panic!("tool error: unknown op {}", name),
        };
        if skip && res != "panic" {
            return json!({"skip": true});
        }
        rec["res"] = json!(res);
        rec["ghost_pre"] = ghost_pre;
        rec["ghost_post"] = self.ghost.json();
        rec["obs_pre"] = obs_pre.clone();
        if res != "panic" {
            let o = self.observe();
            if !o["panic"].is_null() {
                // the call itself returned; one of the read methods used to observe the digest panicked
                rec["obs_panic"] = o["panic"].clone();
            } else {
                rec["obs_post"] = o;
            }
            let lay_post = self.layout(&self.d);
            if lay_pre["cs"] != lay_post["cs"] && lay_post["bl"].as_array().map(|a| a.is_empty()).unwrap_or(false) {
                tags.push("merged");
                if lay_post["cs"].as_array().unwrap().len() < lay_pre["cs"].as_array().unwrap().len() + lay_pre["bl"].as_array().unwrap().len() + (name == "ins") as usize {
                    tags.push("fused");
                }
            }
        }
        if res != "panic" && self.shadow.is_some() {
            // the cleared digest and the fresh one must be indistinguishable after the same calls
            let sh = self.shadow.clone().unwrap();
            let keep = std::mem::replace(&mut self.d, sh);
            let o_sh = self.observe();
            self.d = keep;
            rec["shadow_same"] = json!(o_sh == rec["obs_post"]);
            if name != "clear" {
                tags.push("post-clear-lockstep");
            }
        }
        if let Some(t) = twin {
            // the clone taken before the call still answers as before
            let keep = std::mem::replace(&mut self.d, t);
            let o2 = self.observe_with(&ghost_json_to(&rec["ghost_pre"]));
            self.d = keep;
            rec["twin_ok"] = json!(o2 == obs_pre);
        }
        rec["tags"] = json!(tags);
        rec
    }
    fn mstate(&self) -> Value {
        self.layout(&self.d)
    }
}
fn ghost_json_to(v: &Value) -> Ghost {
    Ghost { w16: v["w16"].as_i64().unwrap(), xw16: v["xw16"].as_i64().unwrap(), mn: v["mn"].as_i64().unwrap(), mx: v["mx"].as_i64().unwrap(),
            any: v["any"].as_bool().unwrap(), unit: v["unit"].as_bool().unwrap(), n: v["n"].as_i64().unwrap() }
}
impl TdSut {
    fn observe_with(&mut self, g: &Ghost) -> Value {
        let keep = std::mem::replace(&mut self.ghost, g.clone());
        let o = self.observe();
        self.ghost = keep;
        o
    }
}

/// E3 driver: scenarios over K0..K3 x delta x backlog with integer values and dyadic weights.
pub fn drive(args: &[String]) {
    let seed = arg_u64(args, "--seed", 1);
    let n_sc = arg_u64(args, "--scenarios", 20);
    let mut out = Out::create(arg(args, "--out").expect("--out"));
    let mut rng = Prng::new(seed ^ 0x7d1);
    for sci in 0..n_sc {
        let scale = ["K0", "K1", "K2", "K3"][(sci % 4) as usize];
        let (dn, dd) = [(11u64, 10u64), (3, 2), (2, 1), (4, 1), (10, 1), (100, 1), (1000, 1)][rng.below(7) as usize];
        let mb = [0u64, 1, 3, 10, 100][rng.below(5) as usize];
        let vmax = [3i64, 15, 200][rng.below(3) as usize];
        // weights across many orders of magnitude: one scenario in four uses weights k * 2^-wexp with wexp in {40, 64, 200}
        let wexp = if sci % 4 == 3 { [40i64, 64, 200][rng.below(3) as usize] } else { 4 };
        if sci == 1 || sci == 2 {
            // many centroids: delta 1000 and several hundred distinct values, so that nothing (sci 1) or little (sci 2)
            // is fused and the digest holds far more than a hundred centroids; aggregates must stay exact
            let (mb, nvals) = if sci == 1 { (0u64, 700u64) } else { (50u64, 1500u64) };
            let cfg = json!({"scale": scale, "dn": 1000, "dd": 1, "mb": mb, "qd": 8, "xlo2": -2, "xn": 45, "wexp": 4});
            let mut steps: Vec<Value> = vec![];
            for i in 0..nvals {
                let x = (i * 7919) % nvals; // a permutation of 0..nvals (7919 is prime and does not divide nvals)
                let record = i % 53 == 0 || i + 1 == nvals;
                steps.push(json!({"obj": "a", "op": {"name":"ins","x": x, "w16": if sci == 1 { 16 } else { [16i64, 32, 48][(i % 3) as usize] }, "skip": !record}}));
                if i % 211 == 210 {
                    steps.push(json!({"obj": "a", "op": {"name":"read"}}));
                }
            }
            out.put(&json!({"sc": sci, "cfg": cfg, "steps": steps}));
            continue;
        }
        let cfg = json!({"scale": scale, "dn": dn, "dd": dd, "mb": mb, "qd": 8, "xlo2": -2, "xn": (2 * vmax + 5).min(45), "wexp": wexp});
        let mut steps: Vec<Value> = vec![];
        let n_ops = 20 + rng.below(60);
        let weighted = rng.chance(1, 2);
        let long_pre = rng.chance(1, 6); // long unrecorded prefix so that K2/K3's n matters (C19)
        if long_pre {
            for _ in 0..(500 + rng.below(3000)) {
                steps.push(json!({"obj": "a", "op": {"name":"ins","x": rng.below(vmax as u64 + 1), "w16": 16, "skip": true}}));
            }
            steps.push(json!({"obj": "a", "op": {"name":"clear"}}));
        }
        for _ in 0..n_ops {
            let x = rng.below(100);
            if x < 70 {
                let w16 = if wexp != 4 { [0i64, 1, 1, 2, 3, 16, 1000][rng.below(7) as usize] } else if weighted { [0i64, 1, 4, 16, 16, 32, 64, 1024][rng.below(8) as usize] } else { 16 };
                let v = match rng.below(3) { 0 => rng.below(vmax as u64 + 1) as i64, 1 => [0, vmax][rng.below(2) as usize], _ => (rng.below(vmax as u64 + 1) / 2) as i64 };
                steps.push(json!({"obj": "a", "op": {"name":"ins","x": v, "w16": w16}}));
            } else if x < 95 {
                steps.push(json!({"obj": "a", "op": {"name":"read"}}));
            } else {
                steps.push(json!({"obj": "a", "op": {"name":"clear"}}));
            }
        }
        out.put(&json!({"sc": sci, "cfg": cfg, "steps": steps}));
    }
    out.flush();
    println!("STATS {}", json!({"scenarios": n_sc}));
}

/// C04: long unit-weight streams; one rank record per checkpoint (values, quantile grid in 1/16
/// units, cdf at sampled points in 1/4096 units, number of centroids).
pub fn rank(args: &[String]) {
    let seed = arg_u64(args, "--seed", 1);
    let n_dig = arg_u64(args, "--digests", 10);
    let max_n = arg_u64(args, "--max-n", 20000);
    let mut out = Out::create(arg(args, "--out").expect("--out"));
    let mut rng = Prng::new(seed ^ 0xc04);
    let mut tid = 0u64;
    for di in 0..n_dig {
        let scale = ["K0", "K1", "K2", "K3"][(di % 4) as usize];
        let (dn, dd) = [(11u64, 10u64), (2, 1), (10, 1), (100, 1), (1000, 1)][rng.below(5) as usize];
        let mb = [0usize, 1, 10, 1000][rng.below(4) as usize];
        let n = [50u64, 500, 5000, max_n][rng.below(4) as usize].min(max_n);
        let shape = (di / 4) % 8; // every (scale, shape) pair within 32 digests
        let read_every = [1u64, 7, 1000, u64::MAX][rng.below(4) as usize];
        // shapes 6 / 7: chunks that rise (fall) from chunk to chunk but are shuffled inside, with a read after every chunk -
        // every merge then sees a backlog that lies wholly beyond the centroids and is not sorted in itself
        // these two shapes only degrade accuracy, not size: they need a compression at which 3 W is small, a long stream and
        // chunks that are a sizeable fraction of it (a twentieth for K0 / K1, a fifth for K2 / K3, whose W is larger)
        let (dn, dd, n) = if shape >= 6 { (1000u64, 1u64, max_n) } else { (dn, dd, n) };
        let chunk = if shape >= 6 { if di % 4 < 2 { n / 20 } else { n / 5 } } else { 8 };
        let (mb, read_every) = if shape >= 6 { (2 * chunk as usize, chunk) } else { (mb, read_every) };
        let mut perm: Vec<u64> = (0..chunk).collect();
        let mut d = make(scale, dn as f64 / dd as f64, mb);
        let mut vals: Vec<i64> = vec![];
        out.put(&json!({"k":"hdr","s":"tdrank","scale":scale,"dn":dn,"dd":dd,"mb":mb,"shape":shape,"n":n}));
        for i in 0..n {
            let v: i64 = match shape {
                0 => i as i64 - (n / 2) as i64,                                   // sorted
                1 => (n - i) as i64,                                              // reverse sorted
                2 => { let s: i64 = (0..12).map(|_| rng.below(2001) as i64 - 1000).sum(); s }   // ~normal
                3 => { let u = 1 + rng.below(10000); (16000 / u) as i64 }         // heavy tail (Pareto-like)
                4 => [0i64, 1, 1000][rng.below(3) as usize],                      // 3-valued discrete (heavy ties)
                5 => (i % 100) as i64 * 10,                                       // saw-tooth
                _ => {
                    if i % chunk == 0 {
                        for j in (1..perm.len()).rev() {
                            let r = rng.below(j as u64 + 1) as usize;
                            perm.swap(j, r);
                        }
                    }
                    let c = (i / chunk) as i64;
                    let within = perm[(i % chunk) as usize] as i64;
                    if shape == 6 { c * 1000 + within } else { -(c * 1000) + within }
                }
            };
            dg!(&mut d, x => x.insert(v as f64));
            vals.push(v);
            if read_every != u64::MAX && (if shape >= 6 { (i + 1) % read_every == 0 } else { i % read_every == 0 }) {
                dg!(&d, x => { x.quantile(0.5); });
            }
        }
        let qd = 16i64;
        tid += 1;
        let mut sorted = vals.clone();
        sorted.sort();
        // rank interval of a value v among the inserted values, with a few ulps of slack so that a result that
        // sits an ulp beside a tied value is ranked with the tie: (#{x < v - ulps}, #{x <= v + ulps})
        let ranks = |v: f64| -> (usize, usize) {
            let u = 8.0 * f64::EPSILON * v.abs().max(1.0);
            let lt = sorted.partition_point(|x| (*x as f64) < v - u);
            let le = sorted.partition_point(|x| (*x as f64) <= v + u);
            (lt, le)
        };
        let r = guarded(|| {
            dg!(&d, x => {
                let qv: Vec<f64> = (0..=qd).map(|a| x.quantile(a as f64 / qd as f64)).collect();
                let q: Vec<i64> = qv.iter().map(|v| (v * 16.0).floor() as i64).collect();
                let q_lt: Vec<usize> = qv.iter().map(|v| ranks(*v).0).collect();
                let q_le: Vec<usize> = qv.iter().map(|v| ranks(*v).1).collect();
                let mut cx: Vec<i64> = (0..12).map(|_| vals[rng.below(vals.len() as u64) as usize]).collect();
                cx.sort();
                let cdf: Vec<i64> = cx.iter().map(|v| (x.cdf(*v as f64) * 4096.0).floor() as i64).collect();
                let c_lt: Vec<usize> = cx.iter().map(|v| ranks(*v as f64).0).collect();
                let c_le: Vec<usize> = cx.iter().map(|v| ranks(*v as f64).1).collect();
                json!({"k":"p","s":"tdrank","tid":tid,"ncent": x.n_centroids(), "qd": qd, "q": q, "q_lt": q_lt, "q_le": q_le,
                       "cx": cx, "cdf": cdf, "c_lt": c_lt, "c_le": c_le, "n": vals.len()})
            })
        });
        match r {
            Ok(rec) => {
                out.put(&rec);
            }
            Err(m) => out.put(&json!({"k":"p","s":"tdrank","tid":tid,"panic":m,"ncent":1u64<<30,"qd":1,"q":[0,0],"q_lt":[0,0],"q_le":[0,0],"cx":[],"cdf":[],"c_lt":[],"c_le":[],"n":1})),
        }
    }
    out.flush();
    println!("STATS {}", json!({"digests": n_dig}));
}

// ---------------------------------------------------------------------------------------------
// Real-valued family (C16): arbitrary f64 values and weights (not representable as TLC integers).
// The harness compares against compensated reference sums and the exact extremes and records the
// outcome of each comparison; P_TDigestReal judges the recorded outcomes.
#[derive(Clone)]
pub struct TdRealSut {
    pub d: Dg,
    pub cfgv: Value,
    // Neumaier-compensated sums of w and x*w, sum of |w| and |x*w|
    pub sw: (f64, f64),
    pub sxw: (f64, f64),
    pub aw: f64,
    pub axw: f64,
    pub mn: f64,
    pub mx: f64,
    pub any: bool,
}
fn nadd(acc: &mut (f64, f64), v: f64) {
    let t = acc.0 + v;
    if acc.0.abs() >= v.abs() {
        acc.1 += (acc.0 - t) + v;
    } else {
        acc.1 += (v - t) + acc.0;
    }
    acc.0 = t;
}
impl TdRealSut {
    fn observe(&self) -> Value {
        let c = self.d.clone();
        let r = guarded(|| {
            dg!(&c, d => {
                let (count, sum, mean) = (d.count(), d.sum(), d.mean());
                let (rw, rxw) = (self.sw.0 + self.sw.1, self.sxw.0 + self.sxw.1);
                let tol = |a: f64| 1e-9 * a + f64::MIN_POSITIVE;
                let count_close = (count - rw).abs() <= tol(self.aw);
                let sum_close = (sum - rxw).abs() <= tol(self.axw);
                let mean_close = if self.any { (mean * rw - rxw).abs() <= 4.0 * tol(self.axw) } else { mean.is_nan() };
                let (min_exact, max_exact) = if self.any { (d.min() == self.mn, d.max() == self.mx) } else { (true, true) };
                json!({"count_close": count_close, "sum_close": sum_close, "mean_close": mean_close, "min_exact": min_exact, "max_exact": max_exact,
                       "empty": d.is_empty(), "count": count, "sum": sum, "min": format!("{:e}", d.min()), "max": format!("{:e}", d.max())})
            })
        });
        match r {
            Ok(v) => v,
            Err(m) => json!({"panic": m}),
        }
    }
}
impl Sut for TdRealSut {
    const TAG: &'static str = "tdr";
    const COMPARE_MSTATE: bool = false;
    fn new(cfg: &Value) -> Self {
        let scale = cfg["scale"].as_str().unwrap_or("K0").to_string();
        let delta = cfg["dn"].as_u64().unwrap_or(4) as f64 / cfg["dd"].as_u64().unwrap_or(1) as f64;
        TdRealSut { d: make(&scale, delta, cfg["mb"].as_u64().unwrap_or(0) as usize), cfgv: cfg.clone(), sw: (0.0, 0.0), sxw: (0.0, 0.0), aw: 0.0, axw: 0.0,
                    mn: f64::INFINITY, mx: f64::NEG_INFINITY, any: false }
    }
    fn header(&self) -> Value {
        self.cfgv.clone()
    }
    fn uid(&self) -> usize {
        self.cfgv.to_string().len() * 31 + self.cfgv["dn"].as_u64().unwrap_or(0) as usize
    }
    fn apply(&mut self, op: &Value, _other: Option<&Self>) -> Value {
        let name = op["name"].as_str().unwrap();
        let mut rec = json!({});
        let obs_pre = self.observe();
        let res: String = match name {
            "ins" => {
                let x: f64 = op["xs"].as_str().unwrap().parse().unwrap();
                let w: f64 = op["ws"].as_str().unwrap().parse().unwrap();
                rec["zero"] = json!(w == 0.0);
                match dg!(&mut self.d, d => guarded(|| d.insert_weighted(x, w))) {
                    Ok(()) => {
                        if w > 0.0 {
                            nadd(&mut self.sw, w);
                            nadd(&mut self.sxw, x * w);
                            self.aw += w.abs();
                            self.axw += (x * w).abs();
                            self.mn = self.mn.min(x);
                            self.mx = self.mx.max(x);
                            self.any = true;
                        }
                        "ok".into()
                    }
                    Err(m) => {
                        rec["panic"] = json!(m);
                        "panic".into()
                    }
                }
            }
            "read" => match dg!(&self.d, d => guarded(|| { d.quantile(0.5); })) {
                Ok(()) => "ok".into(),
                Err(m) => {
                    rec["panic"] = json!(m);
                    "panic".into()
                }
            },
            "clear" => match dg!(&mut self.d, d => guarded(|| d.clear())) {
                Ok(()) => {
                    self.sw = (0.0, 0.0);
                    self.sxw = (0.0, 0.0);
                    self.aw = 0.0;
                    self.axw = 0.0;
                    self.mn = f64::INFINITY;
                    self.mx = f64::NEG_INFINITY;
                    self.any = false;
                    "cleared".into()
                }
                Err(m) => {
                    rec["panic"] = json!(m);
                    "panic".into()
                }
            },
            _ => panic!("tool error: unknown op {}", name),
        };
        rec["res"] = json!(res);
        rec["any"] = json!(self.any);
        if res != "panic" {
            let o = self.observe();
            if !o["panic"].is_null() {
                rec["obs_panic"] = o["panic"].clone();
            } else {
                rec["same_as_before"] = json!(o == obs_pre);
                rec["obs_post"] = o;
            }
        }
        rec
    }
    fn mstate(&self) -> Value {
        Value::Null
    }
}

pub fn drive_real(args: &[String]) {
    let seed = arg_u64(args, "--seed", 1);
    let n_sc = arg_u64(args, "--scenarios", 20);
    let mut out = Out::create(arg(args, "--out").expect("--out"));
    let mut rng = Prng::new(seed ^ 0x7ea1);
    for sci in 0..n_sc {
        let scale = ["K0", "K1", "K2", "K3"][(sci % 4) as usize];
        let (dn, dd) = [(11u64, 10u64), (2, 1), (10, 1), (100, 1)][rng.below(4) as usize];
        let mb = [0u64, 1, 5, 50][rng.below(4) as usize];
        let cfg = json!({"scale": scale, "dn": dn, "dd": dd, "mb": mb});
        let mut steps: Vec<Value> = vec![];
        for _ in 0..(15 + rng.below(50)) {
            let r = rng.below(100);
            if r < 75 {
                // values: decimals, huge, tiny, negative; weights: non powers of two over many orders of magnitude
                let x = match rng.below(6) {
                    0 => (rng.below(2001) as f64 - 1000.0) / 10.0,
                    1 => (rng.below(1000) as f64) * 1e-3 + 0.1,
                    2 => 1e-200 * (1.0 + rng.below(9) as f64),
                    3 => -1e15 / (1.0 + rng.below(7) as f64),
                    4 => 1e12 + rng.below(1000) as f64 / 7.0,
                    _ => rng.below(10) as f64,
                };
                let w = match rng.below(8) {
                    0 => 0.0,
                    1 => 3.0,
                    2 => 0.3,
                    3 => 1e-3 * (1.0 + rng.below(9) as f64),
                    4 => 1e6 / 3.0,
                    5 => 1e-17 * (1.0 + rng.below(9) as f64),
                    6 => 1e-200,
                    _ => 1.0 + rng.below(5) as f64 / 3.0,
                };
                steps.push(json!({"obj": "a", "op": {"name":"ins","xs": format!("{:e}", x), "ws": format!("{:e}", w)}}));
            } else if r < 95 {
                steps.push(json!({"obj": "a", "op": {"name":"read"}}));
            } else {
                steps.push(json!({"obj": "a", "op": {"name":"clear"}}));
            }
        }
        out.put(&json!({"sc": sci, "cfg": cfg, "steps": steps}));
    }
    out.flush();
    println!("STATS {}", json!({"scenarios": n_sc}));
}
