------------------------------- MODULE P_CMSHeap -------------------------------
(* Property-level adjudication of CMSHeap calls: C10, C19.                        *)
(* Ghost: true count of every universe element since the last clear.              *)
(* Observables: iter() as a list, is_empty(), and (through the hook on the        *)
(* embedded sketch) the sketch's current estimate of every universe element,      *)
(* from which E = largest overestimate on this stream.                            *)
EXTENDS PCommon
NE == Hdr.ne
KK == Hdr.kk
Elems == 1 .. NE
MinK(a, b) == IF a < b THEN a ELSE b
MaxOf(S) == CHOOSE x \in S : \A y \in S : x >= y
GhostPost(e) ==
    CASE e.op.name = "add"   -> IF e.res = "ok" THEN [e.ghost_pre EXCEPT ![e.elem] = @ + 1] ELSE e.ghost_pre
      [] e.op.name = "clear" -> IF e.res = "cleared" THEN [x \in Elems |-> 0] ELSE e.ghost_pre
P(e, base) == (IF Has(e, "alt") THEN "C19+" ELSE "") \o (IF e.op.name = "clear" THEN "C19+" ELSE "") \o base
Failing(e) ==
    LET gp   == GhostPost(e)
        ok   == e.res # "panic"
        res  == IF ok THEN ToSet(e.iter_post) ELSE {}
        seen == {x \in Elems : gp[x] > 0}
        EE   == IF ok THEN MaxOf({e.est_post[x] - gp[x] : x \in Elems}) ELSE 0
    IN
    Cl("TOOL.ghost", e.ghost_post = gp) \cup
    Cl(P(e, "C10.addNeverPanics"), ok) \cup
    (IF ~ok THEN {} ELSE
       Cl(P(e, "C10.size: min(k, distinct seen) distinct elements"),
          Len(e.iter_post) = MinK(KK, Cardinality(seen)) /\ Cardinality(res) = Len(e.iter_post)) \cup
       Cl(P(e, "C10.onlyAddedElements"), res \subseteq seen) \cup
       Cl(P(e, "C10.topK: missing only if k others are at least as frequent up to the sketch error"),
          \A x \in seen \ res : Cardinality({y \in Elems \ {x} : gp[y] >= gp[x] - EE}) >= KK) \cup
       Cl(P(e, "C19.isEmpty"), e.empty_post <=> (seen = {})) \cup
       Cl("C19.clone", e.twin_ok) \cup LockStepClause(e))
Init == PInit
Next == PNext(Failing)
Spec == Init /\ [][Next]_<<l, h>>
=============================================================================
