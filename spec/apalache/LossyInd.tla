------------------------------ MODULE LossyInd ------------------------------
EXTENDS Integers
Elems == 0..3
W == 3
VARIABLES
  \* @type: Int -> Bool;
  tracked,
  \* @type: Int -> Int;
  f,
  \* @type: Int -> Int;
  delta,
  \* @type: Int -> Int;
  truec,
  \* @type: Int;
  n

Init ==
  /\ tracked = [e \in Elems |-> FALSE]
  /\ f = [e \in Elems |-> 0]
  /\ delta = [e \in Elems |-> 0]
  /\ truec = [e \in Elems |-> 0]
  /\ n = 0

Add(e) ==
  LET n1 == n + 1
      atEnd == n1 % W = 0
      bcur == (n1 \div W) + (IF atEnd THEN 0 ELSE 1)
      f1 == [f EXCEPT ![e] = IF tracked[e] THEN @ + 1 ELSE 1]
      d1 == [delta EXCEPT ![e] = IF tracked[e] THEN @ ELSE bcur - 1]
      t1 == [tracked EXCEPT ![e] = TRUE]
  IN /\ n' = n1
     /\ truec' = [truec EXCEPT ![e] = @ + 1]
     /\ f' = f1
     /\ delta' = d1
     /\ tracked' = [x \in Elems |-> IF atEnd THEN t1[x] /\ (f1[x] + d1[x] > bcur) ELSE t1[x]]

Next == \E e \in Elems : Add(e)

TypeOK ==
  /\ tracked \in [Elems -> BOOLEAN]
  /\ f \in [Elems -> Int]
  /\ delta \in [Elems -> Int]
  /\ truec \in [Elems -> Int]
  /\ n \in Int

IndInv ==
  /\ TypeOK
  /\ n >= 0
  /\ \A e \in Elems :
       /\ truec[e] >= 0
       /\ tracked[e] => (f[e] >= 1 /\ delta[e] >= 0 /\ f[e] <= truec[e] /\ truec[e] <= f[e] + delta[e] /\ delta[e] <= n \div W)
       /\ ~tracked[e] => truec[e] <= n \div W

\* C09, for threshold s = a/4 and epsilon = 1/W, written on integers
NoMiss == \A e \in Elems, a \in 0..4 :
   (truec[e] * 4 >= a * n /\ truec[e] * W > n) => (tracked[e] /\ f[e] * 4 * W >= (a * W - 4) * n)
NoIntruder == \A e \in Elems, a \in 0..4 :
   (tracked[e] /\ f[e] * 4 * W >= (a * W - 4) * n) => truec[e] * 4 * W >= (a * W - 4) * n
Prop == NoMiss /\ NoIntruder
=============================================================================
