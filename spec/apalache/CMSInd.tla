------------------------------- MODULE CMSInd -------------------------------
EXTENDS Integers
Rows == 0..1
Cols == 0..2
Elems == 0..2
VARIABLES
  \* @type: <<Int, Int>> -> Int;
  table,
  \* @type: Int -> Int;
  truec,
  \* @type: Int;
  total,
  \* @type: <<Int, Int>> -> Int;
  pos

Init ==
  /\ table = [c \in Rows \X Cols |-> 0]
  /\ truec = [e \in Elems |-> 0]
  /\ total = 0
  /\ pos \in [Elems \X Rows -> Cols]

Add(e, n) ==
  /\ table' = [c \in Rows \X Cols |-> IF c[2] = pos[<<e, c[1]>>] THEN table[c] + n ELSE table[c]]
  /\ truec' = [truec EXCEPT ![e] = @ + n]
  /\ total' = total + n
  /\ UNCHANGED pos

Clear ==
  /\ table' = [c \in Rows \X Cols |-> 0]
  /\ truec' = [e \in Elems |-> 0]
  /\ total' = 0
  /\ UNCHANGED pos

Next == (\E e \in Elems, n \in 1..1000000 : Add(e, n)) \/ Clear

TypeOK ==
  /\ table \in [Rows \X Cols -> Int]
  /\ truec \in [Elems -> Int]
  /\ total \in Int
  /\ pos \in [Elems \X Rows -> Cols]

IndInv ==
  /\ TypeOK
  /\ total >= 0
  /\ \A e \in Elems : truec[e] >= 0
  /\ \A c \in Rows \X Cols : table[c] >= 0 /\ table[c] <= total
  /\ \A e \in Elems, r \in Rows : table[<<r, pos[<<e, r>>]>>] >= truec[e]

\* the property: for every element, min over rows is between truec and total
NeverUnder == \A e \in Elems, r \in Rows : table[<<r, pos[<<e, r>>]>>] >= truec[e] /\ table[<<r, pos[<<e, r>>]>>] <= total
=============================================================================
