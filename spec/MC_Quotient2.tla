------------------------------- MODULE MC_Quotient2 -------------------------------
EXTENDS Quotient

VARIABLES a, b, sa, sb
vars == <<a, b, sa, sb>>

Init == a = Empty /\ b = Empty /\ sa = {} /\ sb = {}

InsertA(fp) == LET r == Insert(a, fp) IN
    /\ Assert((r.res = "known") <=> (fp \in sa), "C13 known")
    /\ Assert((r.res = "full") <=> (fp \notin sa /\ Cardinality(sa) = N), "C13 full")
    /\ Assert(r.res = "full" => r.f = a, "C12 insert")
    /\ a' = r.f
    /\ sa' = IF r.res = "full" THEN sa ELSE sa \cup {fp}
    /\ UNCHANGED <<b, sb>>

InsertB(fp) == LET r == Insert(b, fp) IN
    /\ r.res # "full"
    /\ b' = r.f
    /\ sb' = sb \cup {fp}
    /\ UNCHANGED <<a, sa>>

UnionAB == LET r == Union(a, b) IN
    /\ Assert((r.res = "full") <=> (Cardinality(sa \cup sb) > N), "C06 union full")
    /\ Assert(r.res = "full" => r.f = a, "C12 union")
    /\ a' = r.f
    /\ sa' = IF r.res = "ok" THEN sa \cup sb ELSE sa
    /\ UNCHANGED <<b, sb>>

ClearA == a' = Empty /\ sa' = {} /\ UNCHANGED <<b, sb>>

Next == (\E fp \in FPs : InsertA(fp) \/ InsertB(fp)) \/ UnionAB \/ ClearA
Spec == Init /\ [][Next]_vars

ExactSet == Present(a) = sa /\ Present(b) = sb /\ FLen(a) = Cardinality(sa) /\ FLen(b) = Cardinality(sb)
WF == WellFormed(a) /\ WellFormed(b)
=============================================================================
