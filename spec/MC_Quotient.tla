---------------------------- MODULE MC_Quotient ----------------------------
(* E1 + E2 for one quotient filter: exhaustive exploration of every insertion *)
(* order of every subset of fingerprints (the graph closes), property         *)
(* invariants / action assertions, and -- with EMIT = TRUE -- one JSON line    *)
(* per transition for replay in the real code.                                *)
EXTENDS Quotient, Json
CONSTANT EMIT
VARIABLES a, sa
vars == <<a, sa>>

Bit(b) == IF b THEN 1 ELSE 0
Pack(f) == [sl |-> [i \in 1 .. N |-> Bit(f.occ[i-1]) + 2 * Bit(f.cont[i-1]) + 4 * Bit(f.shift[i-1]) + 8 * f.rem[i-1]],
            n  |-> f.n]
Emit(rec) == IF EMIT THEN PrintT(ToJson(rec)) ELSE TRUE
\* property assertions are checked in E1 mode only; the generator must be able to emit every behaviour
Chk(cond, msg) == IF EMIT THEN TRUE ELSE Assert(cond, msg)

\* coverage predicates (evidence: which transitions exercise the hard paths)
Moved(f, g)  == Cardinality({s \in Slots : (f.occ[s] \/ f.shift[s]) /\ (g.rem[s] # f.rem[s] \/ g.cont[s] # f.cont[s])})
ShiftedRunStarts(g) == Cardinality({s \in Slots : g.shift[s] /\ ~g.cont[s]})
Tags(f, g, res) ==
    (IF res = "full" THEN {"full"} ELSE {}) \cup
    (IF res = "known" /\ f.n > 1 THEN {"known"} ELSE {}) \cup
    (IF res = "new" /\ g.shift[0] THEN {"wrap"} ELSE {}) \cup
    (IF res = "new" /\ Moved(f, g) >= 1 THEN {"swapchain"} ELSE {}) \cup
    (IF res = "new" /\ Moved(f, g) >= 3 THEN {"swapchain3"} ELSE {}) \cup
    (IF res = "new" /\ ShiftedRunStarts(g) >= 2 THEN {"multirun"} ELSE {}) \cup
    (IF res = "new" /\ g.n = N THEN {"fills"} ELSE {})

Init == /\ a = Empty /\ sa = {}
        /\ Emit([k |-> "init", cfg |-> [q |-> Q, r |-> R], st |-> Pack(Empty)])

InsertA(fp) == LET r == Insert(a, fp) IN
    /\ Chk((r.res = "known") <=> (fp \in sa), "C13 insert reports known iff the class was inserted")
    /\ Chk((r.res = "full") <=> (fp \notin sa /\ a.n = N), "C13 insert reports Full iff new class at capacity")
    /\ Chk(r.res = "full" => r.f = a, "C12 failed insert leaves the filter unchanged")
    /\ a' = r.f
    /\ sa' = IF r.res = "full" THEN sa ELSE sa \cup {fp}
    /\ Emit([k |-> "t", pre |-> Pack(a), op |-> [name |-> "ins", fp |-> fp], post |-> Pack(r.f),
             res |-> r.res, tags |-> Tags(a, r.f, r.res)])

ClearA == /\ a' = Empty /\ sa' = {}
          /\ Emit([k |-> "t", pre |-> Pack(a), op |-> [name |-> "clear"], post |-> Pack(Empty),
                   res |-> "cleared", tags |-> {}])

Next == (\E fp \in FPs : InsertA(fp)) \/ ClearA
Spec == Init /\ [][Next]_vars

\* C13 / C01: the filter is an exact set over fingerprints
ExactSet == Present(a) = sa /\ FLen(a) = Cardinality(sa)
WF == WellFormed(a)
\* the layout is canonical: the state is a function of the set (used by C06 / C19)
=============================================================================
