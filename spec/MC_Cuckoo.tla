------------------------------ MODULE MC_Cuckoo ------------------------------
(* E1 + E2 for the cuckoo filter: two instances a (inserts, deletes, unions,  *)
(* clear) and b (inserts only, the other operand of union), all alt-bucket    *)
(* functions H, every victim script that is periodic with period P (for       *)
(* MaxKicks <= P this is every script).  Ghost bags per instance.             *)
EXTENDS Cuckoo, Json
CONSTANTS P, EMIT, TWO,     \* TWO = FALSE: single instance (no b, no union)
          ALLFULL          \* FALSE: on a completely full table (every script fails alike) try one script only
VARIABLES a, b, H, bagA, bagB
vars == <<a, b, H, bagA, bagB>>

Norm(f, i1) == LET i2 == BXor(i1, H[f]) IN <<f, IF i1 < i2 THEN i1 ELSE i2>>
Zero == [cl \in Classes |-> 0]
Patterns == [1 .. P -> 0 .. (B - 1)]
\* scripts <<startSecond, pattern>> tried for an insert/union into c
Scripts(c) == IF c.n = NB * B /\ ~ALLFULL THEN {<<FALSE, [k \in 1 .. P |-> 0]>>} ELSE BOOLEAN \X Patterns
Expand(p) == [k \in 1 .. MaxKicks |-> p[((k - 1) % P) + 1]]
Obs(c) == [cl \in Classes |-> Copies(c, H, cl[1], cl[2])]
ObsBag(bag) == [cl \in Classes |-> bag[Norm(cl[1], cl[2])]]
BagTotal(bag) == FoldSet(LAMBDA cl, acc : acc + bag[cl], 0, Classes)

Emit(rec) == IF EMIT THEN PrintT(ToJson(rec)) ELSE TRUE
\* property assertions are checked in E1 mode only; the generator must be able to emit every behaviour
Chk(cond, msg) == IF EMIT THEN TRUE ELSE Assert(cond, msg)
SeqT(t) == [i \in 1 .. (NB * B) |-> t[i - 1]]
HSeq == [f \in 1 .. FPMax |-> H[f]]
St(c) == [tbl |-> SeqT(c.tbl), n |-> c.n, h |-> HSeq, hx |-> <<>>]
Cfg == [b |-> B, nb |-> NB, fpmax |-> FPMax, h |-> HSeq]
Script(s2, p) == [s2 |-> s2, pat |-> p]

InsTags(r, c) ==
    (IF r.res = "full" THEN {"full"} ELSE {}) \cup
    (IF r.res = "ok" /\ r.kicks = 1 THEN {"evict1"} ELSE {}) \cup
    (IF r.res = "ok" /\ r.kicks >= 2 THEN {"evict2+"} ELSE {}) \cup
    (IF r.res = "ok" /\ r.kicks = 0 /\ c.n >= B THEN {"secondbucket-or-dup"} ELSE {})

Init == /\ a = EmptyT /\ b = EmptyT /\ H \in [FPs -> Buckets] /\ bagA = Zero /\ bagB = Zero
        /\ Emit([k |-> "init", cfg |-> Cfg, st |-> St(EmptyT)])

InsertA(f, i1) == \E sc \in Scripts(a) :
    LET s2 == sc[1]  p == sc[2]  r == Insert(a, H, f, i1, s2, Expand(p)) IN
    /\ Chk(r.res = "full" => Obs(r.c) = Obs(a) /\ r.c.n = a.n, "C12 failed insert leaves the filter unchanged")
    /\ Chk(r.res = "ok" => r.ret = TRUE, "C14 successful insert reports Ok(true)")
    /\ Chk(a.n < B => r.res = "ok", "C14 insert below bucketsize elements always succeeds")
    /\ a' = r.c
    /\ bagA' = IF r.res = "ok" THEN [bagA EXCEPT ![Norm(f, i1)] = @ + 1] ELSE bagA
    /\ UNCHANGED <<b, H, bagB>>
    /\ Emit([k |-> "t", pre |-> St(a), op |-> [name |-> "ins", f |-> f, i1 |-> i1, script |-> Script(s2, p)],
             post |-> St(r.c), res |-> r.res, tags |-> InsTags(r, a)])
InsertB(f, i1) == \E sc \in Scripts(b) :
    LET s2 == sc[1]  p == sc[2]  r == Insert(b, H, f, i1, s2, Expand(p)) IN
    /\ TWO /\ r.res = "ok"
    /\ b' = r.c /\ bagB' = [bagB EXCEPT ![Norm(f, i1)] = @ + 1]
    /\ UNCHANGED <<a, H, bagA>>
DeleteA(f, i1) == LET r == Delete(a, H, f, i1) IN
    /\ Chk(r.res <=> bagA[Norm(f, i1)] > 0, "C14 delete succeeds iff a copy of the class is stored")
    /\ a' = r.c
    /\ bagA' = IF r.res THEN [bagA EXCEPT ![Norm(f, i1)] = @ - 1] ELSE bagA
    /\ UNCHANGED <<b, H, bagB>>
    /\ Emit([k |-> "t", pre |-> St(a), op |-> [name |-> "del", f |-> f, i1 |-> i1],
             post |-> St(r.c), res |-> IF r.res THEN "true" ELSE "false",
             tags |-> IF r.res /\ a.n >= 2 THEN {"delete"} ELSE {}])
ClearA == /\ a' = EmptyT /\ bagA' = Zero /\ UNCHANGED <<b, H, bagB>>
          /\ Emit([k |-> "t", pre |-> St(a), op |-> [name |-> "clear"], post |-> St(EmptyT), res |-> "cleared", tags |-> {}])
UnionAB == \E sc \in Scripts(a) :
    LET s2 == sc[1]  p == sc[2]  r == Union(a, b, H, <<s2, Expand(p)>>) IN
    /\ TWO
    /\ Chk(r.res = "full" => Obs(r.c) = Obs(a) /\ r.c.n = a.n, "C12 failed union leaves the filter unchanged")
    /\ a' = r.c
    /\ bagA' = IF r.res = "ok" THEN [cl \in Classes |-> bagA[cl] + bagB[cl]] ELSE bagA
    /\ UNCHANGED <<b, H, bagB>>
Next == (\E f \in FPs, i1 \in Buckets : InsertA(f, i1) \/ InsertB(f, i1) \/ DeleteA(f, i1)) \/ UnionAB \/ ClearA
Spec == Init /\ [][Next]_vars
\* C14 / C01: exact multiset over classes
ExactBag == Obs(a) = ObsBag(bagA) /\ Obs(b) = ObsBag(bagB)
LenOK == a.n = BagTotal(bagA) /\ b.n = BagTotal(bagB)
NoFalseNeg == \A cl \in Classes : bagA[Norm(cl[1], cl[2])] > 0 => Query(a, H, cl[1], cl[2])
=============================================================================
