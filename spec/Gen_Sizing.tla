------------------------------- MODULE Gen_Sizing -------------------------------
(* C07: the (n, p) parameter plane of the accuracy-target constructors            *)
(* BloomFilter::with_properties(n, p), CuckooFilter::with_properties_4/_8(p, n),   *)
(* as an explicit model.  p = a/c is an exact rational.  The number of Bloom hash   *)
(* functions is specified in integers: K(p) = max(1, floor(-log2 p)), i.e. the      *)
(* largest j with a * 2^j <= c, at least 1 (BloomAsFound = TRUE: without the        *)
(* "at least 1", the behaviour before the fix: k = 0 for p > 1/2).  TLC enumerates  *)
(* every point (one initial state each) and emits it; the harness constructs the    *)
(* filters, inserts n distinct keys and reports what happened (P_Sizing judges).    *)
EXTENDS Integers, Sequences, FiniteSets, TLC, Json
CONSTANTS EMIT, BIG, BloomAsFound
VARIABLE pt
Ns == {1, 2, 3, 7, 50, 1000} \cup (IF BIG THEN {20000} ELSE {})
Pow2(k) == 2 ^ k
Ps == {<<1, Pow2(j)>> : j \in 1 .. (IF BIG THEN 20 ELSE 12)} \cup         \* 2^-j
      {<<Pow2(j) - 1, Pow2(j)>> : j \in 1 .. 10} \cup                        \* 1 - 2^-j
      {<<a, 16>> : a \in 1 .. 15} \cup
      {<<1, 3>>, <<2, 3>>, <<1, 10>>, <<3, 10>>, <<9, 10>>, <<1, 100>>, <<99, 100>>, <<1, 1000>>, <<999, 1000>>, <<51, 100>>, <<49, 100>>}
RECURSIVE KRaw(_, _, _)
KRaw(a, c, j) == IF a * Pow2(j + 1) <= c THEN KRaw(a, c, j + 1) ELSE j      \* largest j with a * 2^j <= c (j = 0 always qualifies)
KSpec(a, c) == LET k == KRaw(a, c, 0) IN IF BloomAsFound THEN k ELSE (IF k < 1 THEN 1 ELSE k)
Emit(rec) == IF EMIT THEN PrintT(ToJson(rec)) ELSE TRUE
\* very small rates p = 2^-j, given by their exponent (2^61 does not fit TLC's integers): around the point where a cuckoo
\* fingerprint would need more than 64 bits (2b / 2^l <= p  <=>  l >= j + 1 + log2 b)
Pexps == {31, 45, 59, 60, 61, 62, 63, 70}
Init == \/ \E n \in Ns, p \in Ps :
             /\ pt = [n |-> n, a |-> p[1], c |-> p[2], pexp |-> 0]
             /\ Emit([k |-> "pt", n |-> n, a |-> p[1], c |-> p[2], pexp |-> 0, kspec |-> KSpec(p[1], p[2])])
        \/ \E n \in {1, 50}, j \in Pexps :
             /\ pt = [n |-> n, a |-> 1, c |-> 1, pexp |-> j]
             /\ Emit([k |-> "pt", n |-> n, a |-> 1, c |-> 1, pexp |-> j, kspec |-> j])
Next == UNCHANGED pt
Spec == Init /\ [][Next]_pt
\* the property on the specification itself: every point yields at least one hash function
UsableK == pt.pexp > 0 \/ KSpec(pt.a, pt.c) >= 1
=============================================================================
