------------------------------ MODULE Gen_TDigest ------------------------------
(* E2 generator for the t-digest: every history (tree of operation sequences) of   *)
(* weighted inserts, reads and clears up to depth MaxOps.  The layout after a       *)
(* merge depends on the scale function (floating point for K1..K3), so the          *)
(* generator predicts nothing: the harness executes every history on K0..K3,        *)
(* P_TDigest judges every call, and Trace_TDigest checks every recorded layout      *)
(* change against the mechanism (legal greedy partition; K0 rule).                  *)
EXTENDS Integers, Sequences, TLC, Json
CONSTANTS Values, Weights, MaxOps, EMIT   \* weights are given times 16 (dyadic weights as integers)
VARIABLE hist
Emit(rec) == IF EMIT THEN PrintT(ToJson(rec)) ELSE TRUE
Init == hist = <<>> /\ Emit([k |-> "init", cfg |-> [gen |-> "tdigest"], st |-> <<>>])
Step(op) == /\ Len(hist) < MaxOps /\ hist' = Append(hist, op)
            /\ Emit([k |-> "t", pre |-> hist, op |-> op, post |-> Append(hist, op), res |-> "ok", tags |-> {}])
Next == \/ \E x \in Values, w \in Weights : Step([name |-> "ins", x |-> x, w16 |-> w])
        \/ Step([name |-> "read"])
        \/ (hist # <<>> /\ Step([name |-> "clear"]))
Spec == Init /\ [][Next]_hist
=============================================================================
