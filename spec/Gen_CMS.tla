-------------------------------- MODULE Gen_CMS --------------------------------
(* E2 generator for the count-min sketch: one sketch, shift vector of a concrete   *)
(* hasher (learned from the code, base-W encoded), elements = all (h1, h2) pairs,  *)
(* weights incl. ones that overflow the counter type; depth bounded by MaxOps.     *)
EXTENDS CMS, Json
CONSTANTS FSCODE, EMIT, Weights, MaxOps
FS == [i \in 1 .. D |-> (FSCODE \div (W ^ (i - 1))) % W]
VARIABLES t, ops
vars == <<t, ops>>
Elems == Cols \X Cols
PV(x) == PosVec(x[1], x[2], FS)
Emit(rec) == IF EMIT THEN PrintT(ToJson(rec)) ELSE TRUE
St(s) == [t |-> [r \in 1 .. D |-> [c \in 1 .. W |-> s[r - 1][c - 1]]]]
Init == t = Zero /\ ops = 0 /\ Emit([k |-> "init", cfg |-> [w |-> W, d |-> D, fs |-> FS, cmax |-> CMax], st |-> St(Zero)])
Cells(s, pv) == {s[r][pv[r + 1]] : r \in Rows}
AddT(x, n) == LET r == AddN(t, PV(x), n) IN
    /\ ops < MaxOps /\ ops' = ops + 1
    /\ t' = (IF r.res = "ok" THEN r.t ELSE t)      \* a panicked sketch is not explored further
    /\ Emit([k |-> "t", pre |-> St(t), op |-> [name |-> "add", h1 |-> x[1], h2 |-> x[2], n |-> n],
             post |-> St(r.t), res |-> r.res, ret |-> r.ret,
             tags |-> (IF r.res = "panic" THEN {"overflow"} ELSE {}) \cup
                      (IF r.res = "ok" /\ Cardinality(Cells(t, PV(x))) > 1 THEN {"rows-disagree"} ELSE {}) \cup
                      (IF r.res = "ok" /\ ~IsEmpty(t) /\ MinOf(Cells(t, PV(x))) > 0 THEN {"collision-in-every-row"} ELSE {})])
ClearT == ops < MaxOps /\ ops' = ops + 1 /\ t' = Zero
    /\ Emit([k |-> "t", pre |-> St(t), op |-> [name |-> "clear"], post |-> St(Zero), res |-> "cleared", ret |-> 0, tags |-> {}])
Next == (\E x \in Elems, n \in Weights : AddT(x, n)) \/ ClearT
Spec == Init /\ [][Next]_vars
=============================================================================
