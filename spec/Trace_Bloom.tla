------------------------------ MODULE Trace_Bloom ------------------------------
(* Mechanism-level validation of recorded Bloom filter calls (code -> spec): bit  *)
(* dump before/after through the hook, the key's position vector as produced by   *)
(* the code's own HashIterBuilder.                                               *)
EXTENDS Bloom, Json, IOUtils
Rec == ndJsonDeserialize(IOEnv.TRACE)
Unpack(st) == {i \in Bits : st.bits[i + 1] = 1}
Expected(e) ==
    LET pre == Unpack(e.pre) IN
    CASE e.op.name = "ins"   -> LET r == Insert(pre, e.margs.pv) IN <<r.f, IF r.ret THEN "new" ELSE "known">>
      [] e.op.name = "clear" -> <<EmptyB, "cleared">>
      [] e.op.name = "union" -> <<Union(pre, Unpack(e.b)), "ok">>
Matches(e) == e.res # "panic" /\ LET x == Expected(e) IN x[1] = Unpack(e.post) /\ x[2] = e.res
VARIABLE l
Init == l = 1
Next == /\ l <= Len(Rec)
        /\ IF Rec[l].k = "m" /\ ~Matches(Rec[l]) THEN PrintT(<<"MDRIFT", Rec[l].tid>>) ELSE TRUE
        /\ l' = l + 1
Spec == Init /\ [][Next]_l
Done == PrintT(<<"CHECKED", TLCGet("stats").diameter - 1, Len(Rec)>>)
=============================================================================
