------------------------------- MODULE Cuckoo -------------------------------
(* Mechanism-level specification of src/filters/cuckoofilter.rs.             *)
(* A filter value is [tbl, n]: tbl maps the NB*B logical slots to a          *)
(* fingerprint (0 = free), n is n_elements.  Hashing is abstracted into      *)
(*   - the class <<f, i1>> of an element (fingerprint, first bucket) and     *)
(*   - H : fingerprint -> bucket offset, so that i2 = i1 XOR H[f],           *)
(* both of which are inputs (chosen nondeterministically by the model, or    *)
(* learned from the code by probing).  Every random draw of the code is an   *)
(* explicit argument: startFirst = gen::<bool>() (TRUE: evictions start in the first candidate bucket), choices[k] = k-th         *)
(* gen_range(0..bucketsize).                                                 *)
(*                                                                           *)
(* Two named deviations record behaviour the code had when first read and    *)
(* that the `fix:` commits removed; they are CONSTANTS so that the as-found   *)
(* mechanism stays checkable:                                                *)
(*   LogDirectWrites      FALSE = writes into free slots were not put on the *)
(*                                undo log (failed union left them behind)   *)
(*   SecondBucketTrue     FALSE = insert into the second candidate bucket    *)
(*                                returned Ok(false)                         *)
EXTENDS Naturals, Integers, Sequences, SequencesExt, FiniteSets, FiniteSetsExt, TLC, Bitwise

CONSTANTS B, NB, FPMax, MaxKicks, LogDirectWrites, SecondBucketTrue
Buckets == 0 .. (NB - 1)
FPs     == 1 .. FPMax
SlotsC  == 0 .. (NB * B - 1)
Classes == FPs \X Buckets          \* <<f, i1>>

BXor(x, y) == x ^^ y
EmptyT == [tbl |-> [s \in SlotsC |-> 0], n |-> 0]
\* undo log: cons list <<slot, old, rest>> plus its length (restore_state walks it newest first)
NoLog  == [len |-> 0, lst |-> <<>>]
LogCons(x, old, lg) == [len |-> lg.len + 1, lst |-> <<x, old, lg.lst>>]
Iota(n) == [k \in 1 .. n |-> k]

RECURSIVE FirstFree(_, _, _)
FirstFree(tbl, i, e) == IF e = B THEN -1 ELSE IF tbl[i * B + e] = 0 THEN i * B + e ELSE FirstFree(tbl, i, e + 1)
RECURSIVE FirstMatch(_, _, _, _)
FirstMatch(tbl, i, f, e) == IF e = B THEN -1 ELSE IF tbl[i * B + e] = f THEN i * B + e ELSE FirstMatch(tbl, i, f, e + 1)

Has(c, i, f) == FirstMatch(c.tbl, i, f, 0) # -1
Query(c, H, f, i1) == Has(c, i1, f) \/ Has(c, BXor(i1, H[f]), f)

\* one iteration of the kick loop; st = [done, ok, tbl, log, f, i, kicks]; choices[k] = victim
\* index of the k-th kick.  (A left fold over 1..MaxKicks instead of a recursive operator: the
\* code performs 500 kicks before giving up and TLC's evaluator is slow on deep recursion.)
KickStep(st, k, H, choices) ==
    IF st.done THEN st
    ELSE LET x    == st.i * B + choices[k]
             tmp  == st.tbl[x]
             t1   == [st.tbl EXCEPT ![x] = st.f]
             lg   == LogCons(x, tmp, st.log)
             i2   == BXor(st.i, H[tmp])
             free == FirstFree(t1, i2, 0)
         IN IF free # -1
            THEN [done |-> TRUE, ok |-> TRUE, tbl |-> [t1 EXCEPT ![free] = tmp], kicks |-> k, f |-> 0, i |-> 0,
                  log |-> IF LogDirectWrites THEN LogCons(free, 0, lg) ELSE lg]
            ELSE [done |-> FALSE, ok |-> FALSE, tbl |-> t1, kicks |-> k, f |-> tmp, i |-> i2, log |-> lg]
Kick(tbl, log, f, i, H, choices) ==
    FoldLeft(LAMBDA st, k : KickStep(st, k, H, choices),
             [done |-> FALSE, ok |-> FALSE, tbl |-> tbl, kicks |-> 0, f |-> f, i |-> i, log |-> log], Iota(MaxKicks))

\* insert_internal: returns [ok, tbl, log, ret, kicks]
InsertInternal(tbl, log, H, f, i1, i2, startFirst, choices) ==
    LET f1 == FirstFree(tbl, i1, 0) IN
    IF f1 # -1 THEN [ok |-> TRUE, tbl |-> [tbl EXCEPT ![f1] = f], ret |-> TRUE, kicks |-> 0,
                     log |-> IF LogDirectWrites THEN LogCons(f1, 0, log) ELSE log]
    ELSE LET f2 == FirstFree(tbl, i2, 0) IN
    IF f2 # -1 THEN [ok |-> TRUE, tbl |-> [tbl EXCEPT ![f2] = f], ret |-> SecondBucketTrue, kicks |-> 0,
                     log |-> IF LogDirectWrites THEN LogCons(f2, 0, log) ELSE log]
    \* `let mut i = if self.rng.gen::<bool>() { i1 } else { i2 };`  (learned from trace validation on 4-bucket tables:
    \* two-bucket models cannot tell the two start buckets apart, kicks there only happen when the table is full)
    ELSE LET r == Kick(tbl, log, f, IF startFirst THEN i1 ELSE i2, H, choices)
         IN [ok |-> r.ok, tbl |-> r.tbl, log |-> r.log, ret |-> TRUE, kicks |-> r.kicks]

\* restore_state: newest entry first
Restore(tbl, log) ==
    FoldLeft(LAMBDA st, k : [tbl |-> [st.tbl EXCEPT ![st.lst[1]] = st.lst[2]], lst |-> st.lst[3]],
             [tbl |-> tbl, lst |-> log.lst], Iota(log.len)).tbl

Insert(c, H, f, i1, startFirst, choices) ==
    LET r == InsertInternal(c.tbl, NoLog, H, f, i1, BXor(i1, H[f]), startFirst, choices)
    IN IF r.ok THEN [c |-> [tbl |-> r.tbl, n |-> c.n + 1], res |-> "ok", ret |-> r.ret, kicks |-> r.kicks]
       ELSE [c |-> [tbl |-> Restore(r.tbl, r.log), n |-> c.n], res |-> "full", ret |-> FALSE, kicks |-> r.kicks]

Delete(c, H, f, i1) ==
    LET m1 == FirstMatch(c.tbl, i1, f, 0)
        m2 == FirstMatch(c.tbl, BXor(i1, H[f]), f, 0)
    IN IF m1 # -1 THEN [c |-> [tbl |-> [c.tbl EXCEPT ![m1] = 0], n |-> c.n - 1], res |-> TRUE]
       ELSE IF m2 # -1 THEN [c |-> [tbl |-> [c.tbl EXCEPT ![m2] = 0], n |-> c.n - 1], res |-> TRUE]
       ELSE [c |-> c, res |-> FALSE]

\* union: walk other's slots in index order, first bucket = slot index div B; one shared undo
\* log and a backup of the count; `script` = <<startFirst, choices>> used by every insert
RECURSIVE UnionFrom(_, _, _, _, _)
UnionFrom(acc, o, H, x, script) ==
    IF x = NB * B \/ ~acc.ok THEN acc
    ELSE LET f == o.tbl[x] IN
         IF f = 0 THEN UnionFrom(acc, o, H, x + 1, script)
         ELSE LET i1 == x \div B
                  r  == InsertInternal(acc.tbl, acc.log, H, f, i1, BXor(i1, H[f]), script[1], script[2])
              IN UnionFrom([ok |-> r.ok, tbl |-> r.tbl, log |-> r.log, n |-> IF r.ok THEN acc.n + 1 ELSE acc.n,
                            kicks |-> acc.kicks + r.kicks, failedAt |-> IF r.ok THEN -1 ELSE x],
                           o, H, x + 1, script)
Union(c, o, H, script) ==
    LET r == UnionFrom([ok |-> TRUE, tbl |-> c.tbl, log |-> NoLog, n |-> c.n, kicks |-> 0, failedAt |-> -1], o, H, 0, script)
    IN IF r.ok THEN [c |-> [tbl |-> r.tbl, n |-> r.n], res |-> "ok", kicks |-> r.kicks, failedAt |-> -1]
       ELSE [c |-> [tbl |-> Restore(r.tbl, r.log), n |-> c.n], res |-> "full", kicks |-> r.kicks, failedAt |-> r.failedAt]

\* abstraction: copies per class {f, unordered bucket pair}; observable via query/delete
Copies(c, H, f, i1) == LET i2 == BXor(i1, H[f]) IN
    Cardinality({s \in SlotsC : c.tbl[s] = f /\ (s \div B = i1 \/ s \div B = i2)})
=============================================================================
