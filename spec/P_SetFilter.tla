----------------------------- MODULE P_SetFilter -----------------------------
(* Property-level adjudication for filters whose only promise is "no false     *)
(* negative" (BloomFilter) or exact set semantics (the HashSet reference       *)
(* implementation of Filter; header field exact = TRUE): C01, C06, C19.        *)
(* Ghost: set of universe keys inserted since the last clear.  For union the   *)
(* record carries the observables of a real reference object that received     *)
(* A's stream followed by B's stream (self-composition).                       *)
EXTENDS PCommon
NKeys == Hdr.nkeys
Keys  == 1 .. NKeys
Exact == Hdr.exact

GhostPost(e) ==
    LET g == ToSet(e.ghost_pre) IN
    CASE e.op.name = "ins"   -> IF e.res \in {"new", "known"} THEN g \cup {e.key} ELSE g
      [] e.op.name = "clear" -> IF e.res = "cleared" THEN {} ELSE g
      [] e.op.name = "union" -> IF e.res = "ok" THEN g \cup ToSet(e.ghost_other) ELSE g
P(e, base) ==
    LET alt == IF Has(e, "alt") THEN "C19+" ELSE ""
        op  == CASE e.op.name = "union" -> "C06+" [] e.op.name = "clear" -> "C19+" [] OTHER -> ""
    IN alt \o op \o base
Failing(e) ==
    LET g   == ToSet(e.ghost_pre)
        gp  == GhostPost(e)
        ok  == e.res # "panic"
        qtp == IF ok THEN ToSet(e.qt_post) ELSE {}
    IN
    Cl("TOOL.ghost", ToSet(e.ghost_post) = gp) \cup
    Cl(P(e, "C01.total: the call panicked"), ok) \cup
    (IF ~ok THEN {} ELSE
       Cl(P(e, "C01.noFalseNegative"), gp \subseteq qtp) \cup
       Cl(P(e, "C01.infallible: insert/union of this filter cannot fail"), e.res # "full") \cup
       Cl(P(e, "C19.isEmpty"), e.empty_post <=> (gp = {})) \cup
       Cl("C19.clone", e.twin_ok) \cup LockStepClause(e) \cup
       (IF Exact THEN Cl(P(e, "C01.exactReference"), qtp = gp /\ e.len_post = Cardinality(gp)) ELSE {}) \cup
       (IF e.op.name = "clear" THEN Cl("C19.clearedAnswersLikeFresh", qtp = {} /\ e.len_post = 0 /\ e.empty_post) ELSE {}) \cup
       (IF e.op.name = "union" THEN
           Cl("C06.otherUnchanged", e.other_same) \cup
           Cl("C06.equivalentToBothStreams", e.qt_post = e.ref_qt /\ e.len_post = e.ref_len /\ e.empty_post = e.ref_empty)
        ELSE {}))
Init == PInit
Next == PNext(Failing)
Spec == Init /\ [][Next]_<<l, h>>
=============================================================================
