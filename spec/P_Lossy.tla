-------------------------------- MODULE P_Lossy --------------------------------
(* Property-level adjudication of LossyCounter calls: C09, C19.                   *)
(* Ghost: true frequency of every universe element and the number of adds since   *)
(* the last clear.  Observables: n(), query(a/D) for a in 0..D, add's return.     *)
(* epsilon = en/ed and width come from the header (exact rationals).              *)
EXTENDS PCommon, FiniteSetsExt
NE == Hdr.ne
Elems == 1 .. NE
DD == Hdr.d
Wd == Hdr.width
En == Hdr.en
Ed == Hdr.ed
RECURSIVE SumSeq(_, _)
SumSeq(s, i) == IF i = 0 THEN 0 ELSE s[i] + SumSeq(s, i - 1)
GhostPost(e) ==
    CASE e.op.name = "add"   -> IF e.res # "panic" THEN [e.ghost_pre EXCEPT ![e.elem] = @ + 1] ELSE e.ghost_pre
      [] e.op.name = "clear" -> IF e.res = "cleared" THEN [x \in Elems |-> 0] ELSE e.ghost_pre
CeilDiv(a, b) == (a + b - 1) \div b
\* |known| * L <= width * (H_L(b) + L) + width * b  with H_L(b) = sum floor(L/i) (underestimates H*L by < b)
LH == 10000
HL(b) == FoldSet(LAMBDA i, acc : acc + LH \div i, 0, 1 .. b)
P(e, base) == (IF Has(e, "alt") THEN "C19+" ELSE "") \o (IF e.op.name = "clear" THEN "C19+" ELSE "") \o base
Failing(e) ==
    LET g  == e.ghost_pre
        gp == GhostPost(e)
        ok == e.res # "panic"
        n  == IF ok THEN e.n_post ELSE 0
    IN
    Cl("TOOL.ghost", e.ghost_post = gp) \cup
    Cl(P(e, "C09.total: the call panicked"), ok) \cup
    (IF ~ok THEN {} ELSE
       Cl(P(e, "C09.nCountsAdds"), e.n_post = SumSeq(gp, NE)) \cup
       Cl(P(e, "C09.noMiss: frequent elements are reported"),
          \A a \in 0 .. DD : \A x \in Elems :
             (gp[x] * DD >= a * n /\ gp[x] * Ed > En * n) => x \in ToSet(e.q_post[a + 1])) \cup
       Cl(P(e, "C09.noIntruder: reported elements have frequency >= (s - epsilon) n"),
          \A a \in 0 .. DD : \A x \in ToSet(e.q_post[a + 1]) : gp[x] * DD * Ed >= (a * Ed - En * DD) * n) \cup
       Cl(P(e, "C09.reportedWereAdded"), \A a \in 0 .. DD : \A x \in ToSet(e.q_post[a + 1]) : x \in Elems /\ gp[x] > 0) \cup
       Cl(P(e, "C09.tableBound"),
          n > 0 => Len(e.q_post[1]) * LH <= Wd * (HL(CeilDiv(n, Wd)) + LH) + Wd * CeilDiv(n, Wd)) \cup
       Cl("C19.clone", e.twin_ok) \cup LockStepClause(e) \cup
       (IF e.op.name = "add" THEN
           Cl("C09.addReturnsWhetherUntracked", (e.res = "new") <=> (e.elem \notin ToSet(e.q_pre[1])))
        ELSE {}) \cup
       (IF e.op.name = "clear" THEN Cl("C19.clearedAnswersLikeFresh", e.n_post = 0 /\ \A a \in 0 .. DD : Len(e.q_post[a + 1]) = 0) ELSE {}))
Init == PInit
Next == PNext(Failing)
Spec == Init /\ [][Next]_<<l, h>>
=============================================================================
