---------------------------- MODULE Quotient ----------------------------
(* Mechanism-level specification of src/filters/quotientfilter.rs.          *)
(* A filter value is a record [occ, cont, shift, rem, n]; all operators are *)
(* pure so that the same definitions serve model checking, behaviour        *)
(* generation and trace validation.                                         *)
EXTENDS Naturals, Sequences, FiniteSets, TLC

CONSTANTS Q, R            \* bits_quotient, bits_remainder

Pow2(k) == IF k = 0 THEN 1 ELSE 2 ^ k
N      == Pow2(Q)          \* number of slots
RemMax == Pow2(R) - 1
Slots  == 0 .. (N - 1)
Rems   == 0 .. RemMax
FPs    == 0 .. (N * Pow2(R) - 1)     \* fingerprint = quotient * 2^R + remainder
QuotOf(fp) == fp \div Pow2(R)
RemOf(fp)  == fp % Pow2(R)

Empty == [occ   |-> [s \in Slots |-> FALSE],
          cont  |-> [s \in Slots |-> FALSE],
          shift |-> [s \in Slots |-> FALSE],
          rem   |-> [s \in Slots |-> 0],
          n     |-> 0]

Incr(p) == IF p = N - 1 THEN 0 ELSE p + 1
Decr(p) == IF p = 0 THEN N - 1 ELSE p - 1

-----------------------------------------------------------------------------
(* scan()                                                                    *)
RECURSIVE WalkBack(_, _, _)
WalkBack(f, b, fuel) ==
    IF fuel = 0 THEN b      \* cannot happen on well-formed filters (checked)
    ELSE IF f.shift[b] THEN WalkBack(f, Decr(b), fuel - 1) ELSE b

RECURSIVE SkipRun(_, _, _)
SkipRun(f, s, fuel) ==
    LET s1 == Incr(s) IN
    IF fuel = 0 THEN s1
    ELSE IF f.cont[s1] THEN SkipRun(f, s1, fuel - 1) ELSE s1

RECURSIVE NextBucket(_, _, _, _, _)
NextBucket(f, b, quot, onInsert, fuel) ==
    LET b1 == Incr(b) IN
    IF fuel = 0 THEN b1
    ELSE IF f.occ[b1] \/ (b1 = quot /\ onInsert) THEN b1
         ELSE NextBucket(f, b1, quot, onInsert, fuel - 1)

RECURSIVE Forward(_, _, _, _, _, _)
Forward(f, b, s, quot, onInsert, fuel) ==
    IF b = quot \/ fuel = 0 THEN s
    ELSE Forward(f, NextBucket(f, b, quot, onInsert, N), SkipRun(f, s, N),
                 quot, onInsert, fuel - 1)

RECURSIVE SearchRun(_, _, _, _, _)
\* returns <<present, position>>
SearchRun(f, s, remv, start, fuel) ==
    LET r == f.rem[s] IN
    IF r = remv THEN <<TRUE, s>>
    ELSE IF r > remv THEN <<FALSE, s>>
    ELSE LET s1 == Incr(s) IN
         IF ~f.cont[s1] \/ fuel = 0 THEN <<FALSE, s1>>
         ELSE SearchRun(f, s1, remv, start, fuel - 1)

NoRun == N       \* sentinel for start_of_run = None

Scan(f, quot, remv, onInsert) ==
    LET runExists == f.occ[quot] IN
    IF ~runExists /\ ~onInsert
    THEN [present |-> FALSE, position |-> quot, start |-> NoRun]
    ELSE LET b == WalkBack(f, quot, N)
             s == Forward(f, b, b, quot, onInsert, N)
         IN IF runExists
            THEN LET sr == SearchRun(f, s, remv, s, N)
                 IN [present |-> sr[1], position |-> sr[2], start |-> s]
            ELSE [present |-> FALSE, position |-> s, start |-> NoRun]

Query(f, fp) == Scan(f, QuotOf(fp), RemOf(fp), FALSE).present

-----------------------------------------------------------------------------
(* insert_internal()                                                         *)
RECURSIVE SwapChain(_, _, _, _, _, _, _)
\* carries the displaced (cont, rem, used) triple forward until a free slot
SwapChain(f, position, start, curCont, curRem, curUsed, fuel) ==
    IF ~curUsed \/ fuel = 0 THEN f
    ELSE LET p        == Incr(position)
             nextCont == f.cont[p]
             nextRem  == f.rem[p]
             nextUsed == f.occ[p] \/ f.shift[p]
             g == [f EXCEPT !.shift[p] = TRUE,
                            !.cont[p]  = curCont,
                            !.rem[p]   = curRem]
         IN SwapChain(g, p, start, nextCont, nextRem, nextUsed, fuel - 1)

\* result: [f |-> new filter, res |-> "new" | "known" | "full"]
InsertInternal(f, quot, remv) ==
    LET sc == Scan(f, quot, remv, TRUE) IN
    IF sc.present THEN [f |-> f, res |-> "known"]
    ELSE IF f.n = N THEN [f |-> f, res |-> "full"]
    ELSE
      LET pos       == sc.position
          hasRun    == sc.start # NoRun
          atStart   == hasRun /\ sc.start = pos
          curCont   == f.cont[pos] \/ atStart
          curRem    == f.rem[pos]
          curUsed   == f.occ[pos] \/ f.shift[pos]
          f1 == [f EXCEPT !.rem[pos] = remv]
          f2 == IF hasRun /\ ~atStart THEN [f1 EXCEPT !.cont[pos] = TRUE] ELSE f1
          f3 == IF pos # quot THEN [f2 EXCEPT !.shift[pos] = TRUE] ELSE f2
          f4 == SwapChain(f3, pos, pos, curCont, curRem, curUsed, N)
          f5 == [f4 EXCEPT !.occ[quot] = TRUE, !.n = f.n + 1]
      IN [f |-> f5, res |-> "new"]

Insert(f, fp) == InsertInternal(f, QuotOf(fp), RemOf(fp))

-----------------------------------------------------------------------------
(* union(): walk the clusters of `other`, recover quotients with a FIFO      *)
RECURSIVE UnionCluster(_, _, _, _, _, _)
\* acc = [f, ok]; walks j while other.shift[j] and j # i
UnionCluster(acc, o, i, j, quot, queue) ==
    IF ~acc.ok \/ j = i \/ ~o.shift[j] THEN acc
    ELSE LET q1    == IF o.occ[j] THEN Append(queue, j) ELSE queue
             newRun == ~o.cont[j]
             quot1 == IF newRun THEN Head(q1) ELSE quot
             q2    == IF newRun THEN Tail(q1) ELSE q1
             r     == InsertInternal(acc.f, quot1, o.rem[j])
             acc1  == [f |-> r.f, ok |-> r.res # "full"]
         IN UnionCluster(acc1, o, i, Incr(j), quot1, q2)

RECURSIVE UnionFrom(_, _, _)
UnionFrom(acc, o, i) ==
    IF i = N \/ ~acc.ok THEN acc
    ELSE IF o.occ[i] /\ ~o.shift[i]
         THEN LET r    == InsertInternal(acc.f, i, o.rem[i])
                  acc1 == [f |-> r.f, ok |-> r.res # "full"]
                  acc2 == UnionCluster(acc1, o, i, Incr(i), i, <<>>)
              IN UnionFrom(acc2, o, i + 1)
         ELSE UnionFrom(acc, o, i + 1)

\* result: [f, res |-> "ok" | "full"]; on "full" the backup is restored
Union(f, o) ==
    LET acc == UnionFrom([f |-> f, ok |-> TRUE], o, 0)
    IN IF acc.ok THEN [f |-> acc.f, res |-> "ok"] ELSE [f |-> f, res |-> "full"]

-----------------------------------------------------------------------------
(* Observables and abstraction                                               *)
Present(f) == {fp \in FPs : Query(f, fp)}
FLen(f)    == f.n

\* structural well-formedness (extra, not one of the listed properties)
WellFormed(f) ==
    /\ \A s \in Slots : f.cont[s] => f.shift[s]
    /\ Cardinality({s \in Slots : f.occ[s]}) =
       Cardinality({s \in Slots : (f.occ[s] \/ f.shift[s]) /\ ~f.cont[s]})
    /\ f.n = Cardinality({s \in Slots : f.occ[s] \/ f.shift[s]})
    /\ (f.n > 0 => \E s \in Slots : ~f.shift[s])
=============================================================================
