------------------------------ MODULE PCommon ------------------------------
(* Shared plumbing of the property-level adjudication specs (P-specs).       *)
(* A P-spec reads the P-records written by the harness (one per executed     *)
(* call on a real object: ghost-before, call, result, observables before and *)
(* after), consumes one record per step, and prints one REJECT line per      *)
(* failed clause.  Clause names start with the ids of the properties they    *)
(* decide ("C01+C13.noFalseNegative"); "TOOL." clauses are harness           *)
(* self-checks (ghost bookkeeping) and are tool errors, never verdicts.      *)
EXTENDS Integers, Sequences, FiniteSets, TLC, Json, IOUtils

Rec == ndJsonDeserialize(IOEnv.TRACE)
VARIABLES l, h               \* next record; index of the header record in force
Hdr == Rec[h]
ToSet(s) == {s[i] : i \in 1 .. Len(s)}
Has(e, f) == f \in DOMAIN e
Cl(name, ok) == IF ok THEN {} ELSE {name}
\* C19 lock-step: once an object has been cleared, the harness feeds every later call also to a freshly
\* constructed object of the same configuration and records whether all answers were identical
\* cfg_same: the configuration getters (m/k, w/d, b/m, width/epsilon, k, bits, ...) answer as they did right after construction
LockStepClause(e) == Cl("C19.clearedBehavesLikeFresh: same answers as a freshly constructed object after the same calls",
                        Has(e, "shadow_same") => e.shadow_same) \cup
                     Cl("C19.configurationGettersNeverChange (a cleared object keeps its configuration)",
                        Has(e, "cfg_same") => e.cfg_same)
Report(e, failing) == \A c \in failing : PrintT(<<"REJECT", e.tid, c>>)
PInit == l = 1 /\ h = 1
\* one record per step; header records (one per scenario) switch the configuration
PNext(Failing(_)) ==
    /\ l <= Len(Rec)
    /\ IF Rec[l].k = "hdr" THEN h' = l ELSE (Report(Rec[l], Failing(Rec[l])) /\ h' = h)
    /\ l' = l + 1
Done == PrintT(<<"CHECKED", TLCGet("stats").diameter - 1, Len(Rec)>>)
=============================================================================
