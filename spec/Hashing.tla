------------------------------- MODULE Hashing -------------------------------
(* Enhanced double hashing of src/hash_utils.rs (HashIterBuilder / HashIter): *)
(* the i-th position of an element with base hashes h1, h2 (already reduced   *)
(* modulo m) is (h1 + (i mod m) * h2 + f(i)) mod m, where f(i) is a            *)
(* per-builder shift that depends on the hasher only.                          *)
EXTENDS Naturals
HPos(m, h1, h2, fi, i) == (h1 + (i % m) * h2 + fi) % m
=============================================================================
