-------------------------------- MODULE P_Memory --------------------------------
(* C11: heap memory is bounded by the configuration, not by the stream.             *)
(* HeapModel(cfg) is the documented size of each structure as a function of its      *)
(* configuration only; the harness measures the live heap bytes attributed to the    *)
(* structure (counting allocator) after construction, after 10^2 .. 10^5 operations, *)
(* after clear() and after 1000 further operations, and on failed-operation paths.   *)
(* Packed tables must stay within 3/2 of the model (a 2x over-allocation is caught), *)
(* Vec/HashMap-backed structures within 4x (capacity doubling, node overhead), plus  *)
(* 4 KiB; nothing but LossyCounter may grow with the number of processed elements.   *)
EXTENDS PCommon
CeilDiv(a, b) == (a + b - 1) \div b
RECURSIVE Bits(_)
Bits(x) == IF x <= 1 THEN 0 ELSE 1 + Bits((x + 1) \div 2)      \* ceil(log2 x)
Slack == 4096
Model(e) ==
    LET c == e.cfg IN
    CASE e.structure = "bloom"     -> CeilDiv(c.m, 8)
      [] e.structure = "cms"       -> c.w * c.d * c.csize
      [] e.structure = "hll"       -> 2 ^ c.b
      [] e.structure = "cuckoo"    -> CeilDiv(c.slots * c.l, 8)
      [] e.structure = "quotient"  -> CeilDiv(c.slots * c.r, 8) + 3 * CeilDiv(c.slots, 8)
      [] e.structure = "tdigest"   -> (c.delta + 3 + c.mb + 1) * 16
      [] e.structure = "reservoir" -> c.k * c.tsize
      [] e.structure = "cmsheap"   -> c.sketch_bytes + c.k * 160
      [] OTHER -> 0
Packed(e) == e.structure \in {"bloom", "cms", "hll", "cuckoo", "quotient"}
Bound(e) == IF Packed(e) THEN (3 * Model(e)) \div 2 + Slack ELSE 4 * Model(e) + Slack
MaxOf(s) == CHOOSE x \in {s[i] : i \in 1 .. Len(s)} : \A j \in 1 .. Len(s) : x >= s[j]
\* LossyCounter: entries <= width * (H(ceil(n/width)) + 1) with H(b) <= 1 + log2 b; <= 128 bytes per entry incl. table slack
LossyBound(e, n) == e.cfg.width * (2 + Bits(CeilDiv(n, e.cfg.width))) * 128 + Slack
Failing(e) ==
    IF e.structure = "failed-ops" THEN
       Cl("C11.noGrowthOnFailedOperations", e.at[1] <= e.new + 1024 /\ e.cleared <= 1024)
    ELSE IF e.structure = "clear-cycles" THEN
       \* live bytes after 20 use-and-clear rounds against live bytes after thousands of them
       Cl("C11.noGrowthOverClearAndReuseCycles", e.at[1] <= e.new + 1024)
    ELSE IF e.structure = "lossy" THEN
       Cl("C11.lossyCounterWithinDocumentedLogBound", \A i \in 1 .. Len(e.at) : e.at[i] <= LossyBound(e, e.stages[i]))
    ELSE
       Cl("C11.boundedByConfiguration: construction", e.new <= Bound(e)) \cup
       Cl("C11.boundedByConfiguration: after 10^2..10^5 operations", MaxOf(e.at) <= Bound(e)) \cup
       Cl("C11.boundedByConfiguration: after clear and reuse", e.cleared <= Bound(e) /\ e.cleared_plus_1000 <= Bound(e)) \cup
       \* packed tables have an exact size; Vec-backed ones may still double their capacity between stages,
       \* which the configuration-only bound above already limits
       Cl("C11.doesNotGrowWithTheStream", Packed(e) => e.at[Len(e.at)] <= e.at[2] + Slack)
Init == PInit
Next == PNext(Failing)
Spec == Init /\ [][Next]_<<l, h>>
=============================================================================
