CONSTANTS Q = 2
 R = 1
SPECIFICATION Spec
POSTCONDITION Done
CHECK_DEADLOCK FALSE
