-------------------------------- MODULE MC_HLL --------------------------------
(* E1 + E2 for the HyperLogLog register state machine: two sketches, hashes      *)
(* drawn from boundary patterns (0, all ones, single bits at positions 0, B-1,   *)
(* B, B+1, 62, 63, colliding register indices with different ranks), add,        *)
(* merge, clear.  The graph closes (a state is a pair of subsets of hashes).     *)
EXTENDS HLL, Json
CONSTANTS NH, EMIT, TWO
AllOnes == FromBits(0 .. 63)
Pool == << FromBits({}), AllOnes, FromBits({63}), FromBits({B}), FromBits({B, 0}), FromBits({0}),
           FromBits({32, 1, 0}), FromBits({62, 1, 0}), FromBits({B - 1}), FromBits({B + 1, 0}),
           FromBits({B + 1, 1}), FromBits({33, 16, 2}) >>
Hashes == {Pool[i] : i \in 1 .. NH}
VARIABLES ra, rb, ha, hb
vars == <<ra, rb, ha, hb>>
Emit(rec) == IF EMIT THEN PrintT(ToJson(rec)) ELSE TRUE
St(r) == [reg |-> [i \in 1 .. M |-> r[i - 1]]]
Init == ra = ZeroR /\ rb = ZeroR /\ ha = {} /\ hb = {} /\ Emit([k |-> "init", cfg |-> [b |-> B], st |-> St(ZeroR)])
AddA(h) == /\ ra' = AddHashed(ra, h) /\ ha' = ha \cup {h} /\ UNCHANGED <<rb, hb>>
           /\ Emit([k |-> "t", pre |-> St(ra), op |-> [name |-> "add", h |-> h], post |-> St(AddHashed(ra, h)), res |-> "ok",
                    tags |-> (IF ra[J(h)] > 0 /\ Rho(h) > ra[J(h)] THEN {"raises-register"} ELSE {}) \cup
                             (IF ra[J(h)] >= Rho(h) /\ h \notin ha THEN {"absorbed"} ELSE {}) \cup
                             (IF Rho(h) = 64 - B + 1 THEN {"max-rank"} ELSE {})])
AddB(h) == TWO /\ rb' = AddHashed(rb, h) /\ hb' = hb \cup {h} /\ UNCHANGED <<ra, ha>>
MergeAB == TWO /\ ra' = Merge(ra, rb) /\ ha' = ha \cup hb /\ UNCHANGED <<rb, hb>>
ClearA == /\ ra' = ZeroR /\ ha' = {} /\ UNCHANGED <<rb, hb>>
          /\ Emit([k |-> "t", pre |-> St(ra), op |-> [name |-> "clear"], post |-> St(ZeroR), res |-> "cleared", tags |-> {}])
Next == (\E h \in Hashes : AddA(h) \/ AddB(h)) \/ MergeAB \/ ClearA
Spec == Init /\ [][Next]_vars
\* C17: the registers are a function of the SET of hashes added (order, repetition irrelevant)
SetFunction == ra = RegOf(ha) /\ rb = RegOf(hb)
RangeOK == \A j \in Regs : ra[j] \in 0 .. (64 - B + 1)
EmptyIff == IsEmpty(ra) <=> ha = {}
\* C06 algebra on the pure operator
Algebra == Merge(ra, rb) = Merge(rb, ra) /\ Merge(ra, ra) = ra /\ Merge(Merge(ra, rb), rb) = Merge(ra, rb)
\* in the generator the ghost sets are hidden (they are functions of nothing the code sees)
GenView == <<ra, rb>>
=============================================================================
