---------------------------- MODULE Gen_Constructors ----------------------------
(* Beyond the listed properties: the documented argument contracts of every          *)
(* constructor, as an explicit model.  For each constructor TLC enumerates a grid of  *)
(* arguments around the documented limits and computes whether the constructor must   *)
(* accept them or reject them (the library rejects by panicking with an assertion     *)
(* message); the harness calls the real constructor under catch_unwind and            *)
(* P_Constructors compares.  Rationals are given as a/c.                              *)
EXTENDS Integers, Sequences, FiniteSets, TLC, Json
CONSTANT EMIT
VARIABLE c
IsPow2(n) == n >= 1 /\ \E k \in 0 .. 30 : n = 2 ^ k
Emit(rec) == IF EMIT THEN PrintT(ToJson(rec)) ELSE TRUE
Cases ==
    \* QuotientFilter::with_params(bits_quotient, bits_remainder)
    {[ctor |-> "qf", a |-> q, b |-> r, d |-> 0, ok |-> (r > 0 /\ r <= 64 /\ q > 0 /\ q + r <= 64)] :
        q \in {0, 1, 3, 16, 32, 60, 63, 64}, r \in {0, 1, 4, 5, 32, 48, 61, 63, 64, 65}} \cup
    \* CuckooFilter::with_params(bucketsize, n_buckets, l_fingerprint)
    {[ctor |-> "cuckoo", a |-> bs, b |-> nb, d |-> l, ok |-> (bs >= 2 /\ IsPow2(nb) /\ nb >= 2 /\ l > 1 /\ l <= 64)] :
        bs \in {0, 1, 2, 3, 8}, nb \in {0, 1, 2, 3, 4, 5, 16, 1000, 1024}, l \in {0, 1, 2, 8, 63, 64, 65}} \cup
    \* HyperLogLog::new(b)
    {[ctor |-> "hll", a |-> bb, b |-> 0, d |-> 0, ok |-> (bb >= 4 /\ bb <= 18)] : bb \in 0 .. 21} \cup
    \* ReservoirSampling::new(k), CMSHeap::new(k, sketch), LossyCounter::with_width(w)
    {[ctor |-> nm, a |-> k, b |-> 0, d |-> 0, ok |-> (k > 0)] : nm \in {"reservoir", "cmsheap", "lossy_width"}, k \in {0, 1, 2, 1000}} \cup
    \* LossyCounter::with_epsilon(a/b): 0 < eps < 1
    {[ctor |-> "lossy_eps", a |-> x[1], b |-> x[2], d |-> 0, ok |-> (x[1] > 0 /\ x[1] < x[2])] :
        x \in {<<0, 1>>, <<1, 1000>>, <<1, 2>>, <<999, 1000>>, <<1, 1>>, <<3, 2>>}} \cup
    \* K0..K3::new(a/b): delta > 1 (finite)
    {[ctor |-> nm, a |-> x[1], b |-> x[2], d |-> 0, ok |-> (x[1] > x[2])] :
        nm \in {"K0", "K1", "K2", "K3"}, x \in {<<0, 1>>, <<1, 2>>, <<1, 1>>, <<1001, 1000>>, <<2, 1>>, <<1000, 1>>}} \cup
    \* BloomFilter::with_properties(n, a/b): n > 0, 0 < p < 1
    {[ctor |-> "bloom_props", a |-> x[1], b |-> x[2], d |-> n, ok |-> (n > 0 /\ x[1] > 0 /\ x[1] < x[2])] :
        n \in {0, 1, 100}, x \in {<<0, 1>>, <<1, 100>>, <<1, 2>>, <<99, 100>>, <<1, 1>>, <<2, 1>>}} \cup
    \* CountMinSketch::with_point_query_properties(epsilon = a/b, delta = d/100): epsilon > 0, 0 < delta < 1
    {[ctor |-> "cms_props", a |-> x[1], b |-> x[2], d |-> dl, ok |-> (x[1] > 0 /\ dl > 0 /\ dl < 100)] :
        x \in {<<0, 1>>, <<1, 100>>, <<1, 2>>, <<3, 1>>}, dl \in {0, 1, 50, 99, 100}} \cup
    \* CuckooFilter::with_properties_4(a/b, n): n >= 1, 0 < p < 1
    {[ctor |-> "cuckoo_props", a |-> x[1], b |-> x[2], d |-> n, ok |-> (n >= 1 /\ x[1] > 0 /\ x[1] < x[2])] :
        n \in {0, 1, 100}, x \in {<<0, 1>>, <<1, 100>>, <<99, 100>>, <<1, 1>>}}
\* accepted quotient filters beyond 2^16 slots are not constructed (2^q bits would have to be allocated)
Feasible(x) == ~(x.ctor = "qf" /\ x.ok /\ x.a > 16)
Init == \E x \in Cases : Feasible(x) /\ c = x /\ Emit([k |-> "case"] @@ x)
Next == UNCHANGED c
Spec == Init /\ [][Next]_c
\* sanity of the model: both outcomes occur for every constructor
BothOutcomes == \A nm \in {x.ctor : x \in Cases} : (\E x \in Cases : x.ctor = nm /\ x.ok) /\ (\E x \in Cases : x.ctor = nm /\ ~x.ok)
Inv == BothOutcomes
=============================================================================
