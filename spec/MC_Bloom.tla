------------------------------- MODULE MC_Bloom -------------------------------
(* E1 for the Bloom filter: two filters a, b; EVERY hasher, i.e. every          *)
(* (h1, h2) : Elems -> Bits and every shift vector fs; inserts, union, clear.    *)
EXTENDS Bloom
CONSTANTS Elems
VARIABLES h1, h2, fs, a, b, insA, insB
vars == <<h1, h2, fs, a, b, insA, insB>>
PV(x) == PosVec(h1[x], h2[x], fs)
Init == /\ h1 \in [Elems -> Bits] /\ h2 \in [Elems -> Bits] /\ fs \in [1 .. Kh -> Bits]
        /\ a = EmptyB /\ b = EmptyB /\ insA = {} /\ insB = {}
InsertA(x) == LET r == Insert(a, PV(x)) IN
              /\ Assert(r.ret <=> ~Query(a, PV(x)), "insert reports TRUE iff the element was not reported present before")
              /\ a' = r.f /\ insA' = insA \cup {x} /\ UNCHANGED <<h1, h2, fs, b, insB>>
InsertB(x) == b' = Insert(b, PV(x)).f /\ insB' = insB \cup {x} /\ UNCHANGED <<h1, h2, fs, a, insA>>
UnionAB == a' = Union(a, b) /\ insA' = insA \cup insB /\ UNCHANGED <<h1, h2, fs, b, insB>>
ClearA == a' = EmptyB /\ insA' = {} /\ UNCHANGED <<h1, h2, fs, b, insB>>
Next == (\E x \in Elems : InsertA(x) \/ InsertB(x)) \/ UnionAB \/ ClearA
Spec == Init /\ [][Next]_vars
\* C01
NoFalseNeg == (\A x \in insA : Query(a, PV(x))) /\ (\A x \in insB : Query(b, PV(x)))
\* C06: the state is exactly the OR of the positions of everything inserted, i.e. the state of a
\* filter that processed both streams in any order (hence also commutative, associative, idempotent)
ReplayEq == a = UNION {PSet(PV(x)) : x \in insA} /\ b = UNION {PSet(PV(x)) : x \in insB}
\* C19
EmptyIff == (IsEmpty(a) <=> insA = {}) /\ (IsEmpty(b) <=> insB = {})
=============================================================================
