--------------------------------- MODULE CMS ---------------------------------
(* Mechanism-level specification of src/countminsketch.rs.  A sketch value is  *)
(* the D x W counter table t[row][col] (0-based functions); an element is       *)
(* identified by its position vector pv (1-based sequence, pv[r+1] = column in  *)
(* row r, from Hashing with m = W, k = D).  CMax is the largest value of the    *)
(* counter type: checked_add(..).unwrap() panics beyond it, leaving the rows    *)
(* before the failing one updated (the sketch is then unusable).                *)
EXTENDS Integers, Sequences, FiniteSets, TLC, Hashing
CONSTANTS W, D, CMax
Rows == 0 .. (D - 1)
Cols == 0 .. (W - 1)
Zero == [r \in Rows |-> [c \in Cols |-> 0]]
PosVec(h1, h2, fs) == [i \in 1 .. D |-> HPos(W, h1, h2, fs[i], i - 1)]
MinOf(S) == CHOOSE x \in S : \A y \in S : x <= y
Query(t, pv) == MinOf({t[r][pv[r + 1]] : r \in Rows})
RECURSIVE AddRows(_, _, _, _)
AddRows(t, pv, n, r) ==
    IF r = D THEN [t |-> t, ok |-> TRUE]
    ELSE LET c == pv[r + 1] IN
         IF t[r][c] + n > CMax THEN [t |-> t, ok |-> FALSE]
         ELSE AddRows([t EXCEPT ![r][c] = @ + n], pv, n, r + 1)
\* add_n: returns min(old cells) + n (checked), which equals the query afterwards
AddN(t, pv, n) == LET r == AddRows(t, pv, n, 0) IN
    IF r.ok /\ Query(t, pv) + n <= CMax THEN [t |-> r.t, res |-> "ok", ret |-> Query(t, pv) + n]
    ELSE [t |-> r.t, res |-> "panic", ret |-> 0]
Merge(t, o) ==
    IF \A r \in Rows, c \in Cols : t[r][c] + o[r][c] <= CMax
    THEN [t |-> [r \in Rows |-> [c \in Cols |-> t[r][c] + o[r][c]]], res |-> "ok"]
    ELSE [t |-> t, res |-> "panic"]
IsEmpty(t) == \A r \in Rows, c \in Cols : t[r][c] = 0
=============================================================================
