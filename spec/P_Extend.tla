------------------------------- MODULE P_Extend -------------------------------
(* Judges Extend::extend against repeated add (extra coverage beyond the listed  *)
(* properties; clause prefix "X.").                                               *)
EXTENDS PCommon
Failing(e) ==
    Cl("X.extendDoesNotPanic", e.res = "ok") \cup
    Cl("X.extendConsumesExactlyTheIteratedItems: same observable state as add() of each item in order", e.res = "ok" => e.same) \cup
    Cl("X.extendStreamLength", (e.res = "ok" /\ Has(e, "i")) => e.i = e.case.n)
Init == PInit
Next == PNext(Failing)
Spec == Init /\ [][Next]_<<l, h>>
=============================================================================
