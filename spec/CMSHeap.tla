------------------------------- MODULE CMSHeap -------------------------------
(* Mechanism-level specification of src/topk/cmsheap.rs.  A value is           *)
(* [table, o2c, tree]: the embedded count-min sketch (counter type usize, adds  *)
(* of 1 only), the map element -> count and the ordered set of <<count, elem>>  *)
(* (both indexes are modelled because their consistency is part of C10).        *)
(* pos[e] is the position vector of element e (1-based rows).                   *)
EXTENDS Naturals, Integers, Sequences, FiniteSets, FiniteSetsExt, TLC
CONSTANTS K, W, Dd
Rows == 0 .. (Dd - 1)
Cols == 0 .. (W - 1)
EmptyH == [table |-> [r \in Rows |-> [c \in Cols |-> 0]], o2c |-> <<>>, tree |-> {}]
MinS(S) == CHOOSE x \in S : \A y \in S : x <= y
CmsQuery(t, pv) == MinS({t[r][pv[r + 1]] : r \in Rows})
CmsAdd(t, pv) == [r \in Rows |-> [c \in Cols |-> IF c = pv[r + 1] THEN t[r][c] + 1 ELSE t[r][c]]]
\* order of the tree: (count, element)
Less(x, y) == x[1] < y[1] \/ (x[1] = y[1] /\ x[2] < y[2])
TreeMin(tree) == CHOOSE x \in tree : \A y \in tree : x = y \/ Less(x, y)
Add(h, pv, e) ==
    LET t1    == CmsAdd(h.table, pv)
        count == CmsQuery(t1, pv)              \* the estimate already includes this add
        size  == Cardinality(DOMAIN h.o2c)
    IN IF e \in DOMAIN h.o2c
       THEN [table |-> t1, o2c |-> [h.o2c EXCEPT ![e] = @ + 1],
             tree |-> (h.tree \ {<<h.o2c[e], e>>}) \cup {<<h.o2c[e] + 1, e>>}]
       ELSE IF size < K
       THEN [table |-> t1, o2c |-> [x \in DOMAIN h.o2c \cup {e} |-> IF x = e THEN 1 ELSE h.o2c[x]],
             tree |-> h.tree \cup {<<1, e>>}]
       ELSE LET m == TreeMin(h.tree) IN
            IF count > m[1]
            THEN [table |-> t1, tree |-> (h.tree \ {m}) \cup {<<count, e>>},
                  o2c |-> [x \in (DOMAIN h.o2c \ {m[2]}) \cup {e} |-> IF x = e THEN count ELSE h.o2c[x]]]
            ELSE [table |-> t1, o2c |-> h.o2c, tree |-> h.tree]
Result(h) == {x[2] : x \in h.tree}
=============================================================================
