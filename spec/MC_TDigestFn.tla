------------------------------- MODULE MC_TDigestFn -------------------------------
EXTENDS TDigestFn
CONSTANTS MaxC, MaxCount, MaxVal, QD
\* enumerate layouts: k centroids, counts 1..MaxCount, means = integer values (sum = mean*count) or half-integers
Vals == 0..MaxVal
Valid(L) == /\ \A i \in 1..(Len(L.cs) - 1) : L.cs[i].s * L.cs[i+1].c <= L.cs[i+1].s * L.cs[i].c
            /\ L.mn * L.cs[1].c <= L.cs[1].s
            /\ L.cs[Len(L.cs)].s <= L.mx * L.cs[Len(L.cs)].c
            \* a centroid of count 1 that is first/last... (no further constraint)
Qs == {<<a, QD>> : a \in 0..QD}
Strict(L) == /\ \A i \in 1..(Len(L.cs) - 1) : L.cs[i].s * L.cs[i+1].c < L.cs[i+1].s * L.cs[i].c
             /\ L.mn * L.cs[1].c < L.cs[1].s
             /\ L.cs[Len(L.cs)].s < L.mx * L.cs[Len(L.cs)].c

VARIABLE L
Init == \E k \in 1..MaxC : \E cnt \in [1..k -> 1..MaxCount], m \in [1..k -> Vals], lo \in Vals, hi \in Vals :
          /\ L = [cs |-> [i \in 1..k |-> [c |-> cnt[i], s |-> m[i] * cnt[i]]], mn |-> lo, mx |-> hi]
          /\ Valid(L)
Next == UNCHANGED L
Spec == Init /\ [][Next]_L
QMono == \A a \in 0..(QD-1) : RLe(Quantile(L, <<a, QD>>), Quantile(L, <<a+1, QD>>))
QRange == \A q \in Qs : RLe(RI(L.mn), Quantile(L, q)) /\ RLe(Quantile(L, q), RI(L.mx))
QEnds == REq(Quantile(L, <<0, QD>>), RI(L.mn)) /\ REq(Quantile(L, <<QD, QD>>), RI(L.mx))
Xs == {<<a, 2>> : a \in (-2)..(2*MaxVal+2)}
CMono == \A a \in (-2)..(2*MaxVal+1) : RLe(Cdf(L, <<a, 2>>), Cdf(L, <<a+1, 2>>))
CRange == \A x \in Xs : RLe(RI(0), Cdf(L, x)) /\ RLe(Cdf(L, x), RI(1))
           /\ (RLt(x, RI(L.mn)) => REq(Cdf(L, x), RI(0)))
           /\ (RLe(RI(L.mx), x) => REq(Cdf(L, x), RI(1)))
Inverse == Strict(L) => \A q \in Qs : REq(Cdf(L, Quantile(L, q)), q)
InverseWeak == \A q \in Qs : RLe(q, Cdf(L, Quantile(L, q)))
=============================================================================
