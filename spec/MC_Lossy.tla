------------------------------- MODULE MC_Lossy -------------------------------
(* E1 + E2 for the lossy counter: every stream over NE symbols up to NMax adds,  *)
(* every prefix, thresholds on D-ths; clear.                                     *)
EXTENDS Lossy, Json
CONSTANTS NE, NMax, D, EMIT
Elems == 1 .. NE
VARIABLES c, true
vars == <<c, true>>
Emit(rec) == IF EMIT THEN PrintT(ToJson(rec)) ELSE TRUE
Chk(cond, msg) == IF EMIT THEN TRUE ELSE Assert(cond, msg)
St(x) == [n |-> x.n, known |-> [e \in Elems |-> IF e \in DOMAIN x.known THEN <<x.known[e].f, x.known[e].delta>> ELSE <<0, -1>>]]
ZeroT == [e \in Elems |-> 0]
Init == c = EmptyL /\ true = ZeroT /\ Emit([k |-> "init", cfg |-> [width |-> Width, ne |-> NE], st |-> St(EmptyL)])
AddE(e) == LET r == Add(c, e) IN
    /\ c.n < NMax
    /\ Chk(r.ret <=> e \notin DOMAIN c.known, "C09 add returns true iff the element was not tracked")
    /\ c' = r.c /\ true' = [true EXCEPT ![e] = @ + 1]
    /\ Emit([k |-> "t", pre |-> St(c), op |-> [name |-> "add", e |-> e], post |-> St(r.c), res |-> IF r.ret THEN "new" ELSE "tracked",
             tags |-> (IF r.pruned > 0 THEN {"prunes"} ELSE {}) \cup
                      (IF r.ret /\ true[e] > 0 THEN {"re-enters-after-prune"} ELSE {}) \cup
                      (IF (c.n + 1) % Width = 0 /\ r.pruned = 0 /\ c.n > 0 THEN {"boundary-keeps-all"} ELSE {})])
ClearC == /\ c.n > 0 /\ c' = EmptyL /\ true' = ZeroT
          /\ Emit([k |-> "t", pre |-> St(c), op |-> [name |-> "clear"], post |-> St(EmptyL), res |-> "cleared", tags |-> {}])
Next == (\E e \in Elems : AddE(e)) \/ ClearC
Spec == Init /\ [][Next]_vars
\* C09: no misses -- true >= s*n and true > eps*n  =>  in query(s)
NoMiss == \A a \in 0 .. D : \A e \in Elems :
            (true[e] * D >= a * c.n /\ true[e] * Width > c.n) => e \in Query(c, a, D)
\* no gross intruders -- x in query(s) => true >= (s - eps) n
NoIntruder == \A a \in 0 .. D : \A e \in Query(c, a, D) : true[e] * D * Width >= (a * Width - D) * c.n
\* bounded table: |known| <= width * (H(ceil(n/width)) + 1), with L = lcm(1..8) so that H*L is an integer
L == 840
H840(b) == FoldSet(LAMBDA i, acc : acc + L \div i, 0, 1 .. b)
TableBound == c.n > 0 => Cardinality(DOMAIN c.known) * L <= Width * (H840(CeilDiv(c.n, Width)) + L)
\* mechanism invariant behind both: f <= true <= f + delta, delta <= floor(n / width)
Sandwich == \A e \in DOMAIN c.known : c.known[e].f <= true[e] /\ true[e] <= c.known[e].f + c.known[e].delta
                                      /\ c.known[e].delta <= c.n \div Width
NCount == c.n = FoldSet(LAMBDA e, acc : acc + true[e], 0, Elems)
=============================================================================
