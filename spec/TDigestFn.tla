----------------------------- MODULE TDigestFn -----------------------------
(* quantile()/cdf() of src/tdigest.rs over exact rationals.                 *)
(* layout = [cs |-> Seq([c, s]), mn, mx] with integer counts c and sums s.   *)
EXTENDS Integers, Sequences, FiniteSets, TLC

CONSTANT RightTailFixed

RECURSIVE Gcd(_, _)
Gcd(a, b) == IF b = 0 THEN a ELSE Gcd(b, a % b)
Abs(a) == IF a < 0 THEN -a ELSE a
Norm(n, d) == LET g == Gcd(Abs(n), Abs(d)) IN
              IF g = 0 THEN <<0, 1>> ELSE IF d < 0 THEN <<(-n) \div g, (-d) \div g>> ELSE <<n \div g, d \div g>>
RLe(x, y) == x[1] * y[2] <= y[1] * x[2]
RLt(x, y) == x[1] * y[2] <  y[1] * x[2]
REq(x, y) == x[1] * y[2] =  y[1] * x[2]
RAdd(x, y) == Norm(x[1] * y[2] + y[1] * x[2], x[2] * y[2])
RSub(x, y) == Norm(x[1] * y[2] - y[1] * x[2], x[2] * y[2])
RMul(x, y) == Norm(x[1] * y[1], x[2] * y[2])
RDiv(x, y) == Norm(x[1] * y[2], x[2] * y[1])
RI(n) == <<n, 1>>
Half(n) == Norm(n, 2)
\* interpolate(a, b, t) = t*b + (1-t)*a
Interp(a, b, t) == RAdd(RMul(t, b), RMul(RSub(RI(1), t), a))

Total(cs) == LET RECURSIVE Sum(_) Sum(i) == IF i = 0 THEN 0 ELSE cs[i].c + Sum(i - 1) IN Sum(Len(cs))
Mean(cen) == Norm(cen.s, cen.c)

RECURSIVE QLoop(_, _, _, _)
\* cum = total count of centroids before i ; returns rational or <<0,0>> for "fell through"
QLoop(cs, i, cum, limit) ==
    IF i > Len(cs) THEN <<0, 0>>
    ELSE LET c == cs[i] IN
         IF RLe(limit, RAdd(RI(cum), Half(c.c)))  \* cum + c/2 >= limit
         THEN LET cl == cs[i - 1]
                  cum2 == RSub(RI(cum), Half(cl.c))
                  delta == Half(cl.c + c.c)
                  t == RDiv(RSub(limit, cum2), delta)
              IN Interp(Mean(cl), Mean(c), t)
         ELSE QLoop(cs, i + 1, cum + c.c, limit)

Quantile(L, q) ==
    LET cs == L.cs  s == Total(cs)  limit == RMul(RI(s), q)  c1 == cs[1] IN
    IF RLe(limit, Half(c1.c))
    THEN Interp(RI(L.mn), Mean(c1), RDiv(limit, Half(c1.c)))
    ELSE LET r == QLoop(cs, 1, 0, limit) IN
         IF r[2] # 0 THEN r
         ELSE LET cl == cs[Len(cs)]
                  cum == RSub(RI(s), Half(cl.c))
                  delta == IF RightTailFixed THEN Half(cl.c) ELSE RSub(RI(s), Half(cl.c))
                  t == RDiv(RSub(limit, cum), delta)
              IN Interp(Mean(cl), RI(L.mx), t)

RECURSIVE CLoop(_, _, _, _, _, _, _)
CLoop(L, i, cum, lastMean, lastCum, x, s) ==
    IF i > Len(L.cs)
    THEN IF RLt(x, RI(L.mx))
         THEN LET delta == RSub(RI(L.mx), lastMean)
                  t == RDiv(RSub(x, lastMean), delta)
              IN RDiv(Interp(lastCum, RI(s), t), RI(s))
         ELSE RI(1)
    ELSE LET c == L.cs[i]  cur == RAdd(RI(cum), Half(c.c)) IN
         IF RLt(x, Mean(c))
         THEN LET delta == RSub(Mean(c), lastMean)
                  t == RDiv(RSub(x, lastMean), delta)
              IN RDiv(Interp(lastCum, cur, t), RI(s))
         ELSE CLoop(L, i + 1, cum + c.c, Mean(c), cur, x, s)

Cdf(L, x) == IF RLt(x, RI(L.mn)) THEN RI(0)
             ELSE CLoop(L, 1, 0, RI(L.mn), RI(0), x, Total(L.cs))
=============================================================================
