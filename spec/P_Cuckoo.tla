------------------------------ MODULE P_Cuckoo ------------------------------
(* Property-level adjudication of cuckoo-filter calls: C01, C06, C12, C14,   *)
(* C19.  The ghost is the bag of classes inserted minus deleted, indexed by  *)
(* class representative; observables are len, is_empty, query of every       *)
(* universe key and the number of times each class can still be deleted.     *)
(* Nothing here mentions buckets' contents, fingerprints or the undo log.    *)
EXTENDS PCommon

Cls  == Hdr.cls                 \* Cls[k]: class representative (a key index) of key k
Keys == 1 .. Len(Cls)
Reps == {k \in Keys : Cls[k] = k}
BSize == Hdr.b

RECURSIVE SumOver(_, _)
SumOver(g, S) == IF S = {} THEN 0 ELSE LET x == CHOOSE y \in S : TRUE IN g[x] + SumOver(g, S \ {x})
Total(g) == SumOver(g, Reps)

GhostPost(e) ==
    LET g == e.ghost_pre IN
    CASE e.op.name = "ins"   -> IF e.res = "ok" THEN [g EXCEPT ![e.cls] = @ + 1] ELSE g
      [] e.op.name = "del"   -> IF e.res = "true" THEN [g EXCEPT ![e.cls] = @ - 1] ELSE g
      [] e.op.name = "clear" -> IF e.res = "cleared" THEN [k \in Keys |-> 0] ELSE g
      [] e.op.name = "union" -> IF e.res = "ok" THEN [k \in Keys |-> g[k] + e.ghost_other[k]] ELSE g

P(e, base) ==
    LET alt == IF Has(e, "alt") THEN (IF e.alt = "cleared" THEN "C19+" ELSE "C12+") ELSE ""
        op  == CASE e.op.name = "union" -> "C06+" [] e.op.name = "clear" -> "C19+" [] OTHER -> ""
    IN alt \o op \o base

Failing(e) ==
    LET g   == e.ghost_pre
        gp  == GhostPost(e)
        ok  == e.res # "panic"
        qtp == IF ok THEN ToSet(e.qt_post) ELSE {}
    IN
    Cl("TOOL.ghost", e.ghost_post = gp) \cup
    Cl(P(e, "C14.total: the call panicked"), ok) \cup
    (IF ~ok THEN {} ELSE
       Cl(P(e, "C14.copies: deletable copies per class = inserted - deleted"), \A k \in Reps : e.dc_post[k] = gp[k]) \cup
       Cl(P(e, "C01+C14.noFalseNegative"), \A k \in Keys : gp[Cls[k]] > 0 => k \in qtp) \cup
       Cl(P(e, "C14.noFalsePositive"), \A k \in qtp : gp[Cls[k]] > 0) \cup
       Cl(P(e, "C14.len"), e.len_post = Total(gp)) \cup
       Cl(P(e, "C19.isEmpty"), e.empty_post <=> (Total(gp) = 0)) \cup
       Cl("C19.clone", e.twin_ok) \cup LockStepClause(e) \cup
       (IF e.op.name = "ins" THEN
           Cl(P(e, "C14.insertReportsTrue"), e.res = "ok" => e.ret = TRUE) \cup
           Cl(P(e, "C14.smallAlwaysSucceeds"), e.res = "full" => e.len_pre >= BSize)
        ELSE {}) \cup
       (IF e.op.name = "del" THEN
           Cl(P(e, "C14.deleteResult"), (e.res = "true") <=> (g[e.cls] > 0))
        ELSE {}) \cup
       (IF e.res = "full" THEN
           Cl("C12.unchanged", e.qt_post = e.qt_pre /\ e.len_post = e.len_pre /\ e.empty_post = e.empty_pre /\ e.dc_post = e.dc_pre)
        ELSE {}) \cup
       (IF e.op.name = "union" THEN Cl("C06+C12.otherUnchanged", e.other_same) ELSE {}))

Init == PInit
Next == PNext(Failing)
Spec == Init /\ [][Next]_<<l, h>>
=============================================================================
