------------------------------ MODULE P_TDigestReal ------------------------------
(* C16 on real-valued inputs (arbitrary f64 values and weights over many orders of     *)
(* magnitude, which TLC's integers cannot hold): the harness compares count()/sum()/    *)
(* mean() with compensated reference sums (relative 1e-9 of the absolute mass, i.e.     *)
(* "floating-point accumulation accuracy"), min()/max() bit-exactly with the extremes   *)
(* of the inserted values, and records each outcome; this module judges the outcomes.   *)
EXTENDS PCommon
Failing(e) ==
    Cl("C15+C16.total: the call panicked", e.res # "panic") \cup
    Cl("C15+C16.total: a read method panicked", ~Has(e, "obs_panic")) \cup
    (IF e.res = "panic" \/ Has(e, "obs_panic") THEN {} ELSE
       LET o == e.obs_post IN
       Cl("C16.count = sum of inserted weights (accumulation accuracy)", o.count_close) \cup
       Cl("C16.sum = weighted sum of inserted values (accumulation accuracy)", o.sum_close) \cup
       Cl("C16.mean = sum / count", o.mean_close) \cup
       Cl("C16.min is exactly the smallest inserted value", o.min_exact) \cup
       Cl("C16.max is exactly the largest inserted value", o.max_exact) \cup
       Cl("C16.isEmpty iff no positive weight since creation or clear", o.empty <=> ~e.any) \cup
       Cl("C16.zeroWeightInsertChangesNothing", (e.op.name = "ins" /\ e.zero) => e.same_as_before))
Init == PInit
Next == PNext(Failing)
Spec == Init /\ [][Next]_<<l, h>>
=============================================================================
