-------------------------------- MODULE P_Sizing --------------------------------
(* Property-level adjudication of the accuracy-target constructors (C07, decided    *)
(* clauses): usability (>= 1 hash function, >= 1 bit, no panic on use), acceptance   *)
(* of n distinct inserts (cuckoo: without Full), no false negative among them, and   *)
(* the deterministic cuckoo rate bound 2b / 2^l <= p with capacity >= n.  Sizing is   *)
(* compared by inequality, so a more conservative sizing is never an alarm.           *)
EXTENDS PCommon
Pow2(k) == 2 ^ k
CuckooClauses(e, c, nm) ==
    Cl("C07.cuckooUsable (" \o nm \o "): constructor and use do not panic", c.res = "ok") \cup
    (IF c.res # "ok" THEN {} ELSE
       Cl("C07.cuckooAcceptsNDistinctInsertsWithoutFull (" \o nm \o ")", c.full = 0) \cup
       Cl("C07.cuckooNoFalseNegative (" \o nm \o ")", c.missing = 0) \cup
       Cl("C07.cuckooCapacity (" \o nm \o ")", c.n_buckets * c.bucketsize >= e.n) \cup
       Cl("C07.cuckooRateBound 2b/2^l <= p (" \o nm \o ")",
          c.l >= 31 \/ Pow2(c.l) * e.a >= 2 * c.bucketsize * e.c))
Failing(e) ==
    Cl("C07.bloomUsable: at least one hash function and one bit, no panic on use", e.bloom.res = "ok" /\ e.bloom.k >= 1 /\ e.bloom.m >= 1) \cup
    (IF e.bloom.res # "ok" THEN {} ELSE
       Cl("C07.bloomAcceptsNDistinctInserts", e.bloom.failed = 0) \cup
       Cl("C07.bloomNoFalseNegative", e.bloom.missing = 0)) \cup
    CuckooClauses(e, e.ck4, "with_properties_4") \cup
    CuckooClauses(e, e.ck8, "with_properties_8")
Init == PInit
Next == PNext(Failing)
Spec == Init /\ [][Next]_<<l, h>>
=============================================================================
