-------------------------------- MODULE P_Sizing --------------------------------
(* Property-level adjudication of the accuracy-target constructors (C07, decided    *)
(* clauses): usability (>= 1 hash function, >= 1 bit, no panic on use), acceptance   *)
(* of n distinct inserts (cuckoo: without Full), no false negative among them, and   *)
(* the deterministic cuckoo rate bound 2b / 2^l <= p with capacity >= n.  Sizing is   *)
(* compared by inequality, so a more conservative sizing is never an alarm.           *)
EXTENDS PCommon
Pow2(k) == 2 ^ k
\* Gross statistical clauses (deterministic for a given VERIF_SEED): the number of false positives among PROBES
\* never-inserted keys is compared with  rate * PROBES + 6 sigma + 10,  sigma^2 <= rate * PROBES, rate = r * a / (c * 10)
\* (r = 13 for Bloom's 1.3 p, 10 for the cuckoo filter's p).  isqrt by search keeps everything in integers.
RECURSIVE ISqrtUp(_, _)
ISqrtUp(x, r) == IF r * r >= x THEN r ELSE ISqrtUp(x, r + 1)
Allowed(r10, a, c, probes) ==
    LET mean == (r10 * a * (probes \div 10)) \div c + 1       \* rate * probes, rounded up
    IN mean + 6 * ISqrtUp(mean, 0) + 10
\* points given by the exponent of p = 2^-pexp (rates far below 1 / probes: the expected number of false positives is 0)
AllowedOf(e, r10, probes) == IF e.pexp > 0 THEN 10 ELSE Allowed(r10, e.a, e.c, probes)
Lg(b) == IF b <= 1 THEN 0 ELSE IF b <= 2 THEN 1 ELSE IF b <= 4 THEN 2 ELSE 3
CuckooClauses(e, c, nm) ==
    Cl("C07.cuckooUsable (" \o nm \o "): constructor and use do not panic", c.res = "ok") \cup
    (IF c.res # "ok" THEN {} ELSE
       Cl("C07.cuckooAcceptsNDistinctInsertsWithoutFull (" \o nm \o ")", c.full = 0) \cup
       Cl("C07.cuckooNoFalseNegative (" \o nm \o ")", c.missing = 0) \cup
       Cl("C07.cuckooFalsePositiveFrequency at most about p (6-sigma margin) (" \o nm \o ")", c.fp <= AllowedOf(e, 10, c.probes)) \cup
       Cl("C07.cuckooCapacity (" \o nm \o ")", c.n_buckets * c.bucketsize >= e.n) \cup
       Cl("C07.cuckooRateBound 2b/2^l <= p (" \o nm \o ")",
          IF e.pexp > 0 THEN c.l >= e.pexp + 1 + Lg(c.bucketsize)
          ELSE (c.l >= 31 \/ Pow2(c.l) * e.a >= 2 * c.bucketsize * e.c)))
Failing(e) ==
    Cl("C07.bloomUsable: at least one hash function and one bit, no panic on use", e.bloom.res = "ok" /\ e.bloom.k >= 1 /\ e.bloom.m >= 1) \cup
    (IF e.bloom.res # "ok" THEN {} ELSE
       Cl("C07.bloomAcceptsNDistinctInserts", e.bloom.failed = 0) \cup
       Cl("C07.bloomNoFalseNegative", e.bloom.missing = 0) \cup
       \* only for n >= 1000: for small n (hence small m) the bit occupancy itself fluctuates by several percent from
       \* one hasher seed to the next, which a single-seed measurement cannot average out
       Cl("C07.bloomFalsePositiveFrequency: at most about 1.3 p (n >= 1000, 6-sigma margin on the probe sample)",
          e.n >= 1000 => e.bloom.fp <= AllowedOf(e, 13, e.bloom.probes)) \cup
       \* deterministic companion of the measured clause: the textbook rate (1 - e^(-kn/m))^k of the k and m the constructor
       \* chose, computed by the harness in floating point and handed over as milli-nats (TLC has no exp / ln)
       Cl("C07.bloomTheoreticalRate: (1 - e^(-kn/m))^k <= 1.3 p for the chosen k and m (n >= 50)",
          e.n >= 50 => e.bloom.ln_rate_milli <= e.bloom.ln_bound_milli) \cup
       Cl("C07.bloomLenTracksDistinctInserts: within 10% + 10 for n >= 1000 while at most half the bits are set",
          (e.n >= 1000 /\ 2 * e.bloom.ones <= e.bloom.m) => (10 * e.bloom.len <= 11 * e.n + 100 /\ 10 * e.bloom.len + 100 >= 9 * e.n))) \cup
    CuckooClauses(e, e.ck4, "with_properties_4") \cup
    CuckooClauses(e, e.ck8, "with_properties_8")
Init == PInit
Next == PNext(Failing)
Spec == Init /\ [][Next]_<<l, h>>
=============================================================================
