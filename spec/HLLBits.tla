------------------------------- MODULE HLLBits -------------------------------
(* The two hash attributes HyperLogLog uses, on 64-bit hashes given as four   *)
(* 16-bit limbs (most significant first): register index and rank.            *)
EXTENDS Integers
LOCAL Pow2(k) == 2 ^ k
LOCAL BitAt(h, i) == LET limb == h[4 - (i \div 16)] IN (limb \div Pow2(i % 16)) % 2
JOf(b, h) == IF b <= 16 THEN h[4] % Pow2(b) ELSE h[4] + Pow2(16) * (h[3] % Pow2(b - 16))
RECURSIVE Scan(_, _, _)
Scan(b, h, i) == IF i < b THEN 64 - b + 1 ELSE IF BitAt(h, i) = 1 THEN 64 - i ELSE Scan(b, h, i - 1)
RhoOf(b, h) == Scan(b, h, 63)
=============================================================================
