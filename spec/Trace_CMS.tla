------------------------------- MODULE Trace_CMS -------------------------------
(* Mechanism-level validation of recorded count-min sketch calls (code -> spec). *)
EXTENDS CMS, Json, IOUtils
Rec == ndJsonDeserialize(IOEnv.TRACE)
Unpack(st) == [r \in Rows |-> [c \in Cols |-> st.t[r + 1][c + 1]]]
Matches(e) ==
    LET pre == Unpack(e.pre) IN
    CASE e.op.name = "add"   -> LET r == AddN(pre, e.margs.pv, e.op.n) IN
                                   r.res = e.res /\ (r.res = "ok" => (r.t = Unpack(e.post) /\ r.ret = e.margs.ret))
      [] e.op.name = "clear" -> e.res = "cleared" /\ Unpack(e.post) = Zero
      [] e.op.name = "merge" -> LET r == Merge(pre, Unpack(e.b)) IN r.res = e.res /\ (r.res = "ok" => r.t = Unpack(e.post))
      [] OTHER -> TRUE
VARIABLE l
Init == l = 1
Next == /\ l <= Len(Rec)
        /\ IF Rec[l].k = "m" /\ Rec[l].res # "dead" /\ ~Matches(Rec[l]) THEN PrintT(<<"MDRIFT", Rec[l].tid>>) ELSE TRUE
        /\ l' = l + 1
Spec == Init /\ [][Next]_l
Done == PrintT(<<"CHECKED", TLCGet("stats").diameter - 1, Len(Rec)>>)
=============================================================================
