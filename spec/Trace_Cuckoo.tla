----------------------------- MODULE Trace_Cuckoo -----------------------------
(* Mechanism-level trace validation, code -> spec, for the cuckoo filter.       *)
(* Each M-record carries the table dump before and after the call, the hash     *)
(* attributes of the key as learned from the code (f, i1, i2), and the script   *)
(* of random draws the harness fed the call; accepted iff the pure operator of  *)
(* the M-spec reproduces result and post-table.  H is only needed for the       *)
(* fingerprints that get displaced: the record carries the alt offset of every  *)
(* fingerprint present (hx), learned by probing.                                *)
EXTENDS Cuckoo, Json, IOUtils
Rec == ndJsonDeserialize(IOEnv.TRACE)
Unpack(st) == [tbl |-> [s \in SlotsC |-> st.tbl[s + 1]], n |-> st.n]
\* small models: h[f] for f in 1..FPMax; scenarios on larger parameters: hx = <<fingerprint, offset>> pairs of
\* every fingerprint that can be in the table (the universe keys' fingerprints)
HOf(st)    == IF Len(st.hx) = 0 THEN [f \in FPs |-> st.h[f]]
              ELSE [f \in {st.hx[i][1] : i \in 1 .. Len(st.hx)} |->
                       st.hx[CHOOSE i \in 1 .. Len(st.hx) : st.hx[i][1] = f][2]]
Expand(p)  == [k \in 1 .. MaxKicks |-> p[((k - 1) % Len(p)) + 1]]
Expected(e) ==
    LET pre == Unpack(e.pre)  H == HOf(e.pre) IN
    CASE e.op.name = "ins"   -> LET r == Insert(pre, H, e.margs.f, e.margs.i1, e.op.script.s2, Expand(e.op.script.pat)) IN <<r.c, r.res>>
      [] e.op.name = "del"   -> LET r == Delete(pre, H, e.margs.f, e.margs.i1) IN <<r.c, IF r.res THEN "true" ELSE "false">>
      [] e.op.name = "clear" -> <<EmptyT, "cleared">>
      [] e.op.name = "union" -> LET r == Union(pre, Unpack(e.b), H, <<e.op.script.s2, Expand(e.op.script.pat)>>) IN <<r.c, r.res>>
Matches(e) == e.res # "panic" /\ LET x == Expected(e) IN x[1] = Unpack(e.post) /\ x[2] = e.res
VARIABLE l
Init == l = 1
Next == /\ l <= Len(Rec)
        /\ IF Rec[l].k = "m" /\ ~Matches(Rec[l]) THEN PrintT(<<"MDRIFT", Rec[l].tid>>) ELSE TRUE
        /\ l' = l + 1
Spec == Init /\ [][Next]_l
Done == PrintT(<<"CHECKED", TLCGet("stats").diameter - 1, Len(Rec)>>)
=============================================================================
