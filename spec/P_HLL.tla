--------------------------------- MODULE P_HLL ---------------------------------
(* Property-level adjudication of HyperLogLog calls: C17, C06, C19, C20.          *)
(* Ghost: the set of 64-bit hashes added since the last clear (limb tuples).      *)
(* Observables: registers() as a sparse list of <<index, value>> pairs, count(),  *)
(* is_empty(), and the outcomes of the self-composition experiments the harness   *)
(* runs next to every call (other call form, permuted/duplicated replay into a     *)
(* fresh sketch, reconstruction from registers, serde round trip).                *)
EXTENDS PCommon, HLLBits
BP == Hdr.b
GhostPost(e) ==
    LET g == ToSet(e.ghost_pre) IN
    CASE e.op.name = "add"   -> IF e.res = "ok" THEN g \cup {e.h} ELSE g
      [] e.op.name = "clear" -> IF e.res = "cleared" THEN {} ELSE g
      [] e.op.name = "merge" -> IF e.res = "ok" THEN g \cup ToSet(e.ghost_other) ELSE g
      [] OTHER -> g
\* the registers a sketch must hold after the set hs of hashes: sparse <<j, rho>> pairs
Expected(hs) == LET js == {JOf(BP, x) : x \in hs} IN
    {<<j, CHOOSE r \in {RhoOf(BP, x) : x \in {y \in hs : JOf(BP, y) = j}} :
              \A x \in {y \in hs : JOf(BP, y) = j} : r >= RhoOf(BP, x)>> : j \in js}
P(e, base) ==
    LET alt == IF Has(e, "alt") THEN "C19+" ELSE ""
        op  == CASE e.op.name = "merge" -> "C06+" [] e.op.name = "clear" -> "C19+" [] e.op.name = "roundtrip" -> "C20+" [] e.op.name = "reconstruct" -> "C17+" [] OTHER -> ""
    IN alt \o op \o base
Failing(e) ==
    LET gp == GhostPost(e)
        ok == e.res # "panic"
    IN
    Cl("TOOL.ghost", ToSet(e.ghost_post) = gp) \cup
    Cl(P(e, "C17.total: the call panicked"), ok) \cup
    (IF ~ok THEN {} ELSE
       Cl(P(e, "C17.registerRule: each register = max rank over the added hashes addressing it"),
          {<<p[1], p[2]>> : p \in ToSet(e.regs_post)} = Expected(gp)) \cup
       Cl(P(e, "C19.isEmpty"), e.empty_post <=> (gp = {})) \cup
       Cl(P(e, "C19.emptyCountsZero"), (gp = {}) => e.count_post = 0) \cup
       Cl("C19.clone", e.twin_ok) \cup LockStepClause(e) \cup
       Cl(P(e, "C17.addIsAddHashedOfHashOne"), e.forms_same) \cup
       Cl(P(e, "C17.permutationAndRepetitionInvariant"), e.perm_same) \cup
       Cl(P(e, "C17.reconstructFromRegisters"), e.recon_same) \cup
       (IF e.op.name = "merge" THEN Cl("C06.otherUnchanged", e.other_same) ELSE {}) \cup
       (IF e.op.name = "roundtrip" THEN Cl("C20.roundTrip: serialise then deserialise yields an equal sketch that reacts identically", e.rt_ok) ELSE {}))
Init == PInit
Next == PNext(Failing)
Spec == Init /\ [][Next]_<<l, h>>
=============================================================================
