---------------------------- MODULE P_ReservoirDist ----------------------------
(* C05 verdict on the code's own behaviour: the harness executed every outcome of  *)
(* every draw in every state the REAL sampler reaches within 4k+1 adds (breadth     *)
(* first over the code's own states, rs.rs `dist`) and recorded the table           *)
(*      (stream index, reservoir before, weight of the draw) |-> reservoir after.  *)
(* This module pushes exact weights through that RECORDED table (not through the   *)
(* mechanism spec) and checks the integer identity Incl(pos) * n = k * Total for   *)
(* every n <= 4k+1: every stream position is in the sample with probability k/n.   *)
EXTENDS Integers, Sequences, FiniteSets, FiniteSetsExt, TLC, Json, IOUtils
Rec == ndJsonDeserialize(IOEnv.TRACE)
KK == Rec[1].kk
\* last level whose draws were recorded (4k unless the code consumed the random script differently from the
\* mechanism spec at some level: the levels from there on are not judged, see DESIGN.md)
T == IF "tmax" \in DOMAIN Rec[1] THEN Rec[1].tmax ELSE 4 * KK
Rows(idx) == {i \in 2 .. Len(Rec) : Rec[i].n_pre = idx}
\* weights are only meaningful up to a common factor: they are divided by their gcd at every level, which keeps
\* them within TLC's 32-bit integers for k = 3 as well (a uniform sampler gives equal weights at each level)
RECURSIVE Gcd(_, _)
Gcd(a, b) == IF b = 0 THEN a ELSE Gcd(b, a % b)
GcdAll(d) == FoldSet(LAMBDA r, acc : Gcd(d[r], acc), 0, DOMAIN d)
Normalize(d) == LET g == GcdAll(d) IN IF g <= 1 THEN d ELSE [r \in DOMAIN d |-> d[r] \div g]
RECURSIVE Dist(_)
Dist(n) == IF n = 0 THEN [r \in {<<>>} |-> 1]
           ELSE LET d == Dist(n - 1)
                    rows == {i \in Rows(n - 1) : Rec[i].res_pre \in DOMAIN d}
                    succ == {Rec[i].res_post : i \in rows}
                IN Normalize([x \in succ |-> FoldSet(LAMBDA i, acc : acc + (IF Rec[i].res_post = x THEN d[Rec[i].res_pre] * Rec[i].w ELSE 0), 0, rows)])
Total(d) == FoldSet(LAMBDA r, acc : acc + d[r], 0, DOMAIN d)
Incl(d, p) == FoldSet(LAMBDA r, acc : acc + (IF \E x \in 1 .. Len(r) : r[x] = p THEN d[r] ELSE 0), 0, DOMAIN d)
Uniform(n) == LET d == Dist(n) IN \A p \in 0 .. (n - 1) : Incl(d, p) * n = KK * Total(d)
\* every reservoir reached at level n-1 must have its outgoing draws recorded (the table is complete)
\* (and some reservoir must be reached at all: an empty distribution would satisfy Uniform vacuously)
Complete(n) == /\ DOMAIN Dist(n - 1) # {} /\ DOMAIN Dist(n) # {}
               /\ \A r \in DOMAIN Dist(n - 1) : \E i \in Rows(n - 1) : Rec[i].res_pre = r
VARIABLE n
Init == n = KK
Next == /\ n <= T + 1
        /\ IF ~Complete(n) THEN PrintT(<<"REJECT", n, "TOOL.tableIncomplete">>)
           ELSE IF ~Uniform(n) THEN PrintT(<<"REJECT", n, "C05.uniform: inclusion probability of some position differs from k/n">>)
                                     /\ PrintT(<<"DETAIL", n, [p \in 0 .. (n - 1) |-> Incl(Dist(n), p)], Total(Dist(n))>>)
           ELSE TRUE
        /\ n' = n + 1
Spec == Init /\ [][Next]_n
Done == PrintT(<<"CHECKED", TLCGet("stats").diameter - 1, T + 2 - KK>>)
=============================================================================
