-------------------------------- MODULE Bloom --------------------------------
(* Mechanism-level specification of src/filters/bloomfilter.rs.  A filter     *)
(* value is the set of set bit positions.  An element is identified by its     *)
(* position vector (sequence of Kh positions, from Hashing).                   *)
EXTENDS Integers, Sequences, FiniteSets, TLC, Hashing
CONSTANTS M, Kh
Bits == 0 .. (M - 1)
Idx  == 0 .. (Kh - 1)
PosVec(h1, h2, fs) == [i \in 1 .. Kh |-> HPos(M, h1, h2, fs[i], i - 1)]   \* fs: 1-based sequence of shifts
PSet(pv) == {pv[i] : i \in 1 .. Len(pv)}
EmptyB == {}
Query(s, pv) == PSet(pv) \subseteq s
\* insert sets the k bits; returns Ok(!was_present): TRUE iff at least one bit was newly set
Insert(s, pv) == [f |-> s \cup PSet(pv), ret |-> (PSet(pv) \ s) # {}]
Union(s, o) == s \cup o
IsEmpty(s) == s = {}
=============================================================================
