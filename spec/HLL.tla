--------------------------------- MODULE HLL ---------------------------------
(* Register mechanics of src/hyperloglog/mod.rs.  A 64-bit hash is a sequence *)
(* of four 16-bit limbs <<l3, l2, l1, l0>> (most significant first), because  *)
(* TLC integers are 32-bit.  A sketch value is the register function          *)
(* [0 .. 2^B - 1 -> 0 .. 64-B+1].                                             *)
EXTENDS Integers, Sequences, FiniteSets, TLC, HLLBits
CONSTANTS B
M == 2 ^ B
Regs == 0 .. (M - 1)
Pow2(k) == 2 ^ k
\* bit i (0 = least significant) of a limb tuple
BitAt(h, i) == LET limb == h[4 - (i \div 16)] IN (limb \div Pow2(i % 16)) % 2
\* limb tuple with exactly the bits of S set
FromBits(S) == [k \in 1 .. 4 |->
    LET bits == {i \in S : i \div 16 = 4 - k}
        RECURSIVE Sum(_)
        Sum(T) == IF T = {} THEN 0 ELSE LET x == CHOOSE y \in T : TRUE IN Pow2(x % 16) + Sum(T \ {x})
    IN Sum(bits)]
J(h) == JOf(B, h)
Rho(h) == RhoOf(B, h)
MaxI(a, b) == IF a > b THEN a ELSE b
ZeroR == [j \in Regs |-> 0]
AddHashed(reg, h) == [reg EXCEPT ![J(h)] = MaxI(@, Rho(h))]
Merge(r1, r2) == [j \in Regs |-> MaxI(r1[j], r2[j])]
IsEmpty(reg) == \A j \in Regs : reg[j] = 0
MaxSet(S) == IF S = {} THEN 0 ELSE CHOOSE x \in S : \A y \in S : x >= y
RegOf(hs) == [j \in Regs |-> MaxSet({Rho(h) : h \in {g \in hs : J(g) = j}})]
=============================================================================
