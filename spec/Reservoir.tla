------------------------------ MODULE Reservoir ------------------------------
(* Mechanism-level specification of src/reservoirsampling.rs: fill (i < k),    *)
(* plain reservoir sampling (k <= i < 4k), gap sampling (i >= 4k).  A sampler   *)
(* value is [i, skip, res]; items are stream positions.  Every random draw is   *)
(* an explicit argument:                                                        *)
(*   plain phase : j  = gen_range over DrawRange(i)                             *)
(*   gap phase   : u  = a/b, the value 1 - gen_range(0.0..1.0) in (0, 1], from   *)
(*                 which the gap g = floor(ln u / ln(1 - p)), p = k/(i+1), is    *)
(*                 determined by the exact rational relation GapOK; slot j.      *)
(* Three named deviations record how the code behaved when first read (D9);     *)
(* the `fix:` commit removed them, the constants keep the old mechanism          *)
(* checkable:                                                                   *)
(*   InclusiveDraw   FALSE = plain phase drew from 0..i-1 instead of 0..i        *)
(*   GapAtSwitch     FALSE = the item at i = 4k was always accepted (no first gap)*)
(*   SkipPlusOne     FALSE = skip_until = i + g (accepted the next item for g<=1) *)
EXTENDS Integers, Sequences, FiniteSets, FiniteSetsExt, TLC
CONSTANTS K, InclusiveDraw, GapAtSwitch, SkipPlusOne
T == 4 * K
EmptyR == [i |-> 0, skip |-> 0, res |-> <<>>]
DrawRange(n) == IF InclusiveDraw THEN 0 .. n ELSE 0 .. (n - 1)
RangeSize(n) == IF InclusiveDraw THEN n + 1 ELSE n
Replace(r, j, x) == [r EXCEPT ![j + 1] = x]
\* (1-p)^(g+1) < u <= (1-p)^g  with u = a/b, 1-p = (i1-k)/i1, i1 = i+1   (integers only)
GapOK(a, b, i1, g) == /\ ((i1 - K) ^ (g + 1)) * b < a * (i1 ^ (g + 1))
                      /\ a * (i1 ^ g) <= b * ((i1 - K) ^ g)
\* u sits exactly on a boundary (the floating-point result may go either way): never scripted
GapTie(a, b, i1, g) == a * (i1 ^ g) = b * ((i1 - K) ^ g)
GapOf(a, b, i1, gmax) == IF \E g \in 0 .. gmax : GapOK(a, b, i1, g)
                         THEN CHOOSE g \in 0 .. gmax : GapOK(a, b, i1, g) ELSE -1
\* the gap for u = a/b is the least g with (1-p)^(g+1) < u; searched upwards so that no power beyond
\* cap+1 is ever formed (TLC integers are 32-bit); cap+1 stands for "larger than cap"
RECURSIVE GapFind(_, _, _, _, _)
GapFind(a, b, i1, g, cap) ==
    IF g > cap THEN cap + 1
    ELSE IF ((i1 - K) ^ (g + 1)) * b < a * (i1 ^ (g + 1)) THEN g
    ELSE GapFind(a, b, i1, g + 1, cap)
GapOfCap(a, b, i1, cap) == GapFind(a, b, i1, 0, cap)
Fill(s) == [i |-> s.i + 1, skip |-> s.skip, res |-> Append(s.res, s.i)]
Plain(s, j) == [i |-> s.i + 1, skip |-> s.skip, res |-> IF j < K THEN Replace(s.res, j, s.i) ELSE s.res]
\* gap phase with gaps already resolved: g0 = first gap (used only when entering the phase and
\* GapAtSwitch), g = gap drawn after an accepted item, j = slot
\* cap: skip values beyond the exploration horizon are identified (MinI(.., cap))
GapStep(s, g0, g, j, cap) ==
    LET sk == IF GapAtSwitch /\ s.i = T THEN (IF s.i + g0 < cap THEN s.i + g0 ELSE cap) ELSE s.skip
        nx == IF SkipPlusOne THEN s.i + 1 + g ELSE s.i + g
    IN
    IF s.i >= sk
    THEN [i |-> s.i + 1, skip |-> (IF nx < cap THEN nx ELSE cap), res |-> Replace(s.res, j, s.i), acc |-> TRUE]
    ELSE [i |-> s.i + 1, skip |-> sk, res |-> s.res, acc |-> FALSE]
Strip(x) == [i |-> x.i, skip |-> x.skip, res |-> x.res]
MinI(a, b) == IF a < b THEN a ELSE b
\* C18
Valid(s) == /\ Len(s.res) = MinI(s.i, K)
            /\ \A x \in 1 .. Len(s.res) : s.res[x] \in 0 .. (s.i - 1)
            /\ \A x, y \in 1 .. Len(s.res) : x # y => s.res[x] # s.res[y]
            /\ (s.i <= K => s.res = [x \in 1 .. s.i |-> x - 1])
=============================================================================
