-------------------------------- MODULE P_Compat --------------------------------
(* Judges union / merge of operand pairs (Gen_Compat).  The listed properties only *)
(* speak about ACCEPTED operations (C01: after union returns Ok every element of a  *)
(* or b is reported; C06: a successful merge equals processing both streams), so    *)
(* an accepted merge of incompatible operands that loses elements is a violation;   *)
(* whether incompatible operands are rejected at all is extra coverage (X.).        *)
EXTENDS PCommon
Failing(e) ==
    Cl("C06.compatibleOperandsAreAccepted: same configuration and equal hashers", e.case.compatible => e.res = "ok") \cup
    Cl("C01+C06.acceptedUnionLosesNothing: everything either operand held is still reported", e.res = "ok" => e.lost = 0) \cup
    Cl("C06.otherUnchanged", e.res = "ok" => e.other_same) \cup
    Cl("X.incompatibleOperandsAreRejected (documented: panics)", ~e.case.compatible => e.res # "ok")
Init == PInit
Next == PNext(Failing)
Spec == Init /\ [][Next]_<<l, h>>
=============================================================================
