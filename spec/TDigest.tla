------------------------------- MODULE TDigest -------------------------------
(* Mechanism of src/tdigest.rs: backlog, merge-before-read, stable sort by    *)
(* mean, greedy left-to-right fuse.  A centroid is [c, s] (count, sum) with    *)
(* integer c, s (the harness scales dyadic weights by 16).  The fuse decision  *)
(* is a parameter, so results hold for every scale function; for K0 the        *)
(* decision rule is rational and is pinned (either outcome at an exact tie,    *)
(* where the floating-point comparison may go either way).                     *)
EXTENDS Integers, Sequences, FiniteSets, TLC
MeanLe(a, b) == a.s * b.c <= b.s * a.c
MeanLt(a, b) == a.s * b.c <  b.s * a.c
\* stable insertion sort by mean (sort_by is stable; equal means keep their order)
RECURSIVE InsertSorted(_, _)
InsertSorted(sorted, x) ==
    IF sorted = <<>> THEN <<x>>
    ELSE IF MeanLt(x, Head(sorted)) THEN <<x>> \o sorted
    ELSE <<Head(sorted)>> \o InsertSorted(Tail(sorted), x)
RECURSIVE SortStable(_, _)
SortStable(acc, rest) == IF rest = <<>> THEN acc ELSE SortStable(InsertSorted(acc, Head(rest)), Tail(rest))
SumC(seq) == LET RECURSIVE F(_) F(i) == IF i = 0 THEN 0 ELSE seq[i].c + F(i - 1) IN F(Len(seq))
SumS(seq) == LET RECURSIVE F(_) F(i) == IF i = 0 THEN 0 ELSE seq[i].s + F(i - 1) IN F(Len(seq))
Fuse(a, b) == [c |-> a.c + b.c, s |-> a.s + b.s]
\* K0: fuse iff q0 + (cur+next)/S <= q_limit with q_limit = f_inv(f(q0) + 1) = min(q0 + 2/delta, 1), delta = dn/dd
\* (f_inv clamps its argument to delta/2).  Q0 = total count of the centroids already emitted (q0 = Q0/S).
\* At exact ties the floating-point comparison may go either way: both outcomes are allowed.
K0Allowed(cur, nxt, S, dn, dd, Q0) ==
    LET lhs     == (cur.c + nxt.c) * dn
        rhs     == 2 * S * dd
        clamped == Q0 * dn + rhs >= S * dn          \* q0 + 2/delta >= 1: the limit is 1
        last    == Q0 + cur.c + nxt.c = S            \* q = 1 exactly (only for the last element)
    IN IF clamped THEN (IF last \/ Q0 * dn + rhs = S * dn THEN {TRUE, FALSE} ELSE {TRUE})
       ELSE IF lhs < rhs THEN {TRUE} ELSE IF lhs > rhs THEN {FALSE} ELSE {TRUE, FALSE}
\* greedy pass over the sorted list x with decision vector d (d[i-1]: fuse x[i] into the current centroid)
RECURSIVE Greedy(_, _, _, _, _)
Greedy(x, i, cur, out, d) ==
    IF i > Len(x) THEN Append(out, cur)
    ELSE IF d[i - 1] THEN Greedy(x, i + 1, Fuse(cur, x[i]), out, d)
         ELSE Greedy(x, i + 1, x[i], Append(out, cur), d)
RECURSIVE LegalK0Q(_, _, _, _, _, _, _, _)
LegalK0Q(x, i, cur, d, S, dn, dd, Q0) ==
    IF i > Len(x) THEN TRUE
    ELSE /\ d[i - 1] \in K0Allowed(cur, x[i], S, dn, dd, Q0)
         /\ IF d[i - 1] THEN LegalK0Q(x, i + 1, Fuse(cur, x[i]), d, S, dn, dd, Q0)
            ELSE LegalK0Q(x, i + 1, x[i], d, S, dn, dd, Q0 + cur.c)
LegalK0(x, i, cur, d, S, dn, dd) == LegalK0Q(x, i, cur, d, S, dn, dd, 0)
\* code -> spec direction: recover the decision vector from an observed output `out` of merging the
\* sorted list x: out must be a partition of x into contiguous groups, each output centroid the
\* fuse of its group.  Returns the decision vector, or <<>> with ok = FALSE.
RECURSIVE Recover(_, _, _, _, _, _)
Recover(x, i, cur, out, j, d) ==
    \* cur = fuse of the current group; j = index in out it must become
    IF j > Len(out) THEN [ok |-> FALSE, d |-> d]
    ELSE IF i > Len(x) THEN [ok |-> (cur = out[j] /\ j = Len(out)), d |-> d]
    ELSE IF cur = out[j] /\ (j < Len(out)) /\ ~(cur.c < out[j].c)
         THEN \* the group may end here (counts are positive, so a longer group would have a larger count)
              Recover(x, i + 1, x[i], out, j + 1, Append(d, FALSE))
         ELSE Recover(x, i + 1, Fuse(cur, x[i]), out, j, Append(d, TRUE))
RecoverDecisions(x, out) == IF x = <<>> THEN [ok |-> out = <<>>, d |-> <<>>] ELSE Recover(x, 2, x[1], out, 1, <<>>)
=============================================================================
