------------------------------- MODULE Gen_Extend -------------------------------
(* Beyond the listed properties: `Extend::extend(iter)` of the five structures that   *)
(* implement it (BloomFilter, CountMinSketch, HyperLogLog - by value and by reference, *)
(* ReservoirSampling, CMSHeap).                                                        *)
(*                                                                                     *)
(* Model.  Each of these structures is a stream consumer: its abstract state is a      *)
(* function of the sequence of items it has consumed (of the set for Bloom / HLL, of   *)
(* the multiset for the sketch, of the sequence itself for the reservoir and the       *)
(* top-k heap).  `Add` appends one item to the consumed stream, and the documented     *)
(* meaning of `extend` is the left fold of `Add` over the iterator, i.e. the consumed   *)
(* stream grows by exactly the iterated items, in order, nothing skipped or repeated.  *)
(* TLC enumerates every (structure, stream consumed before, iterated sequence) over a  *)
(* small key universe; the harness builds one object with add* ; extend and one with   *)
(* add* only and compares every observable (ext.rs); P_Extend judges the outcome.      *)
EXTENDS Integers, Sequences, FiniteSets, TLC, Json, Functions, SequencesExt
CONSTANTS EMIT, MaxPre, MaxExt, NKeys
VARIABLE c
Keys == 0 .. NKeys - 1
SeqsUpTo(n) == UNION {[1 .. k -> Keys] : k \in 0 .. n}
Structures == {"bloom", "cms", "hll", "hllref", "reservoir", "cmsheap"}
Add(s, x) == Append(s, x)
Extend(s, xs) == FoldLeft(Add, s, xs)
Emit(rec) == IF EMIT THEN PrintT(ToJson(rec)) ELSE TRUE
Init == \E st \in Structures, pre \in SeqsUpTo(MaxPre), ext \in SeqsUpTo(MaxExt) :
          /\ c = [s |-> st, pre |-> pre, ext |-> ext, stream |-> Extend(pre, ext)]
          /\ Emit([k |-> "case", s |-> st, pre |-> pre, ext |-> ext, n |-> Len(pre) + Len(ext)])
Next == UNCHANGED c
Spec == Init /\ [][Next]_c
\* the law the implementation is compared against: extend = the same stream as adding one by one
Inv == c.stream = c.pre \o c.ext /\ Len(c.stream) = Len(c.pre) + Len(c.ext)
=============================================================================
