---------------------------- MODULE P_ReservoirFreq ----------------------------
(* C05, measured clause (gross, deterministic for a given VERIF_SEED): inclusion  *)
(* counts per stream position over `runs` independently seeded real samplers.     *)
(* It complements the exact table of P_ReservoirDist, which presupposes the call   *)
(* pattern of the mechanism spec: this clause makes no assumption about how the    *)
(* code consumes its random number generator.                                      *)
(*   count[p] ~ Binomial(runs, k/n);  with  S = sqrt(runs * k * (n-k)) = n * sigma *)
(*   exact regime (n <= 4k+1):   | count[p] * n - runs * k | <= 6 S + n            *)
(*   gap regime   (n >  4k+1):   the documented approximation bias of relative      *)
(*                               order 1/k is allowed on top: + 2 * runs            *)
(* (2/k of the expected count runs*k/n, times n).  All integers, below 2^31.        *)
EXTENDS PCommon
ISqrtUp(x) == CHOOSE s \in 0 .. 46340 : s * s >= x /\ (s = 0 \/ (s - 1) * (s - 1) < x)
Abs(x) == IF x < 0 THEN -x ELSE x
RECURSIVE SumSeq(_, _)
SumSeq(s, i) == IF i = 0 THEN 0 ELSE s[i] + SumSeq(s, i - 1)
Failing(e) ==
    Cl("C18.addNeverPanics (measured runs)", e.res = "ok") \cup
    (IF e.res # "ok" THEN {} ELSE
       LET k == e.kk
           n == e.n
           S == ISqrtUp(e.runs * k * (n - k))
           slack == 6 * S + n + (IF n > 4 * k + 1 THEN 2 * e.runs ELSE 0)
       IN
       Cl("C18.size: min(n, k) items in every run", e.sizes_ok /\ Len(e.counts) = n /\ SumSeq(e.counts, n) = e.runs * k) \cup
       Cl("C05.uniformMeasured: every position is sampled k/n of the time (6 sigma over the seeded runs; gap regime: plus the documented 1/k-order bias)",
          \A p \in 1 .. Len(e.counts) : Abs(e.counts[p] * n - e.runs * k) <= slack))
Init == PInit
Next == PNext(Failing)
Spec == Init /\ [][Next]_<<l, h>>
=============================================================================
