----------------------------- MODULE Gen_HLLSerde -----------------------------
(* C20: the space of serialised HyperLogLog documents, as an explicit model.     *)
(* A document is a JSON object with the fields a serialiser writes (registers,   *)
(* b, buildhasher), possibly omitted, duplicated, of the wrong type or joined    *)
(* by an unknown one; b and the length of registers vary independently.  The     *)
(* positional (array) rendering of the same values is part of the model too.     *)
(* Deserialize is specified abstractly: a document is Valid iff it has exactly   *)
(* the three fields once each, 4 <= b <= 18 and 2^b registers; the               *)
(* deserialiser must accept every Valid document (round trip) and may only      *)
(* return sketches that satisfy the constructor's invariants.  TLC enumerates    *)
(* every document of the model (one initial state each) and emits it; the        *)
(* harness renders it as JSON text, feeds serde_json and reports what happened.  *)
EXTENDS Integers, Sequences, FiniteSets, TLC, Json
CONSTANTS EMIT, BIG         \* BIG: include 2^18-sized register vectors
VARIABLE doc
Bs == {0, 3, 4, 5, 8, 17, 18, 19, 63, 64, 65, 2147483647}
LenKinds == {"empty", "one", "m-1", "m", "m+1", "2m", "3m", "sixteen"} \cup (IF BIG THEN {"2^18", "2^18+1"} ELSE {})
Pow2(k) == 2 ^ k
HasM(b) == b <= 19          \* 2^19 registers are still generated (b just beyond the legal range with a matching length)
LenOf(b, kind) ==
    CASE kind = "empty" -> 0 [] kind = "one" -> 1 [] kind = "sixteen" -> 16
      [] kind = "2^18" -> 262144 [] kind = "2^18+1" -> 262145
      [] kind = "m-1" -> Pow2(b) - 1 [] kind = "m" -> Pow2(b) [] kind = "m+1" -> Pow2(b) + 1
      [] kind = "2m" -> 2 * Pow2(b) [] kind = "3m" -> 3 * Pow2(b)
Three == {"registers", "b", "buildhasher"}
Perms == {s \in [1 .. 3 -> Three] : \A i, j \in 1 .. 3 : i # j => s[i] # s[j]}
Layouts ==
    Perms \cup
    {<<"registers", "b">>, <<"registers", "buildhasher">>, <<"b", "buildhasher">>} \cup                   \* omissions
    {<<"registers", "b", "buildhasher", f>> : f \in Three} \cup                                            \* duplicates
    {<<"registers", "b", "buildhasher", "unknown">>, <<"unknown", "b", "registers", "buildhasher">>} \cup  \* unknown field
    {<<"registers", "bneg", "buildhasher">>, <<"registers", "bstr", "buildhasher">>, <<"regstr", "b", "buildhasher">>}  \* wrong types
Fills == {"zero", "rand", "max"}
\* "map": a JSON object (what the serialiser writes); "seq": the positional form [v1, v2, ...] of the same values
\* (bincode-style; serde offers it to every struct visitor) - arbitrary input the deserialiser may reject or accept,
\* but never turn into a sketch that violates the constructor's invariants
Forms == {"map", "seq"}
SeqLayouts == {<<"registers", "b", "buildhasher">>, <<"b", "registers", "buildhasher">>, <<"registers", "b">>,
               <<"registers", "b", "buildhasher", "b">>, <<"registers", "bstr", "buildhasher">>}
Valid(d) == /\ d.form = "map"
            /\ Len(d.fields) = 3 /\ {d.fields[i] : i \in 1 .. 3} = Three
            /\ d.b >= 4 /\ d.b <= 18 /\ d.len = Pow2(d.b)
Emit(rec) == IF EMIT THEN PrintT(ToJson(rec)) ELSE TRUE
Init == \E b \in Bs, kind \in LenKinds, fill \in Fills, fields \in Layouts, form \in Forms :
          /\ (form = "seq" => (fields \in SeqLayouts /\ fill = "zero" /\ b \in {3, 4, 8, 18, 19} /\ kind \notin {"2^18", "2^18+1", "2m"}))
          /\ (kind \in {"m-1", "m", "m+1"} => HasM(b))
          /\ (kind \in {"2m", "3m"} => b <= 12)
          /\ ((b >= 17 /\ kind \in {"m-1", "m", "m+1"}) => (IF fill = "zero" THEN TRUE ELSE fields = <<"registers", "b", "buildhasher">>))
          /\ (kind \in {"2^18", "2^18+1"} => (fill = "zero" /\ fields = <<"registers", "b", "buildhasher">>))
          /\ doc = [k |-> "doc", form |-> form, b |-> b, kind |-> kind, len |-> LenOf(b, kind), fill |-> fill, fields |-> fields]
          /\ Emit(doc @@ [valid |-> Valid(doc)])
Next == UNCHANGED doc
Spec == Init /\ [][Next]_doc
\* sanity of the model itself: valid documents exist for every legal precision in Bs
SomeValid == TRUE
=============================================================================
