------------------------------ MODULE Trace_Lossy ------------------------------
(* Mechanism-level validation of recorded LossyCounter calls (entries through   *)
(* the hook; elements are the integers 1..NE).                                  *)
EXTENDS Lossy, Json, IOUtils
Rec == ndJsonDeserialize(IOEnv.TRACE)
Unpack(st) == [n |-> st.n, known |-> [e \in {x \in 1 .. Len(st.known) : st.known[x][2] >= 0} |-> [f |-> st.known[e][1], delta |-> st.known[e][2]]]]
Matches(e) ==
    LET pre == Unpack(e.pre) IN
    CASE e.op.name = "add"   -> LET r == Add(pre, e.op.e) IN r.c = Unpack(e.post) /\ e.res = (IF r.ret THEN "new" ELSE "tracked")
      [] e.op.name = "clear" -> e.res = "cleared" /\ Unpack(e.post) = EmptyL
      [] OTHER -> TRUE
VARIABLE l
Init == l = 1
Next == /\ l <= Len(Rec)
        /\ IF Rec[l].k = "m" /\ ~Matches(Rec[l]) THEN PrintT(<<"MDRIFT", Rec[l].tid>>) ELSE TRUE
        /\ l' = l + 1
Spec == Init /\ [][Next]_l
Done == PrintT(<<"CHECKED", TLCGet("stats").diameter - 1, Len(Rec)>>)
=============================================================================
