--------------------------- MODULE MC_ReservoirDist ---------------------------
(* C05 on the specification: exact inclusion probabilities by path counting      *)
(* through the spec's own step functions.  All outcomes of one plain-phase draw   *)
(* are equiprobable; at the switch the outcomes have the integer weights          *)
(* 1 (accept into one of k slots) : 3k+1 (first gap > 0) over the denominator     *)
(* 4k+1.  Uniform(n) is the integer identity  Incl(pos) * n = k * Total.          *)
EXTENDS Reservoir
VARIABLE dummy
\* successors of reservoir r at index idx, as a bag successor -> weight
OutcomeBag(r, idx) ==
    IF idx < K THEN [x \in {Append(r, idx)} |-> 1]
    ELSE IF idx < T
    THEN LET succ == {(IF j < K THEN Replace(r, j, idx) ELSE r) : j \in DrawRange(idx)}
         IN [x \in succ |-> Cardinality({j \in DrawRange(idx) : (IF j < K THEN Replace(r, j, idx) ELSE r) = x})]
    ELSE \* idx = T: the switch
         IF GapAtSwitch
         THEN [x \in {Replace(r, j, idx) : j \in 0 .. (K - 1)} \cup {r} |-> IF x = r THEN 3 * K + 1 ELSE 1]
         ELSE [x \in {Replace(r, j, idx) : j \in 0 .. (K - 1)} |-> 1]
RECURSIVE Gcd(_, _)
Gcd(a, b) == IF b = 0 THEN a ELSE Gcd(b, a % b)
GcdAll(d) == FoldSet(LAMBDA r, acc : Gcd(d[r], acc), 0, DOMAIN d)
Normalize(d) == LET g == GcdAll(d) IN IF g <= 1 THEN d ELSE [r \in DOMAIN d |-> d[r] \div g]
RECURSIVE Dist(_)
Dist(n) == IF n = 0 THEN [r \in {<<>>} |-> 1]
           ELSE LET d == Dist(n - 1)
                    succ == UNION {DOMAIN OutcomeBag(r, n - 1) : r \in DOMAIN d}
                IN Normalize([x \in succ |-> FoldSet(LAMBDA r, acc : acc + (IF x \in DOMAIN OutcomeBag(r, n - 1) THEN d[r] * OutcomeBag(r, n - 1)[x] ELSE 0), 0, DOMAIN d)])
Total(d) == FoldSet(LAMBDA r, acc : acc + d[r], 0, DOMAIN d)
Incl(d, p) == FoldSet(LAMBDA r, acc : acc + (IF \E x \in 1 .. Len(r) : r[x] = p THEN d[r] ELSE 0), 0, DOMAIN d)
Uniform(n) == LET d == Dist(n) IN \A p \in 0 .. (n - 1) : Incl(d, p) * n = K * Total(d)
UniformUpToSwitch == \A n \in K .. (T + 1) : Uniform(n)
Init == dummy = 0
Next == UNCHANGED dummy
Spec == Init /\ [][Next]_dummy
Inv == UniformUpToSwitch
=============================================================================
