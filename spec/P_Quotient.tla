----------------------------- MODULE P_Quotient -----------------------------
(* Property-level adjudication of quotient-filter calls: C01, C06, C12, C13, *)
(* C19 as relations over observables and the ghost set of inserted classes.  *)
(* Nothing here mentions slots, runs or clusters.                            *)
EXTENDS PCommon

Cls  == Hdr.cls                 \* Cls[k]: observational class of universe key k
Keys == 1 .. Len(Cls)
Cap  == Hdr.cap                 \* 2^bits_quotient

GhostPost(e) ==
    LET g == ToSet(e.ghost_pre) IN
    CASE e.op.name = "ins"   -> IF e.res \in {"new", "known"} THEN g \cup {e.cls} ELSE g
      [] e.op.name = "clear" -> IF e.res = "cleared" THEN {} ELSE g
      [] e.op.name = "union" -> IF e.res = "ok" THEN g \cup ToSet(e.ghost_other) ELSE g

\* which property a clause is attributed to depends on the call that was judged
P(e, base) ==
    LET alt == IF Has(e, "alt") THEN (IF e.alt = "cleared" THEN "C19+" ELSE "C12+") ELSE ""
        op  == CASE e.op.name = "union" -> "C06+" [] e.op.name = "clear" -> "C19+" [] OTHER -> ""
    IN alt \o op \o base

Failing(e) ==
    LET g   == ToSet(e.ghost_pre)
        gp  == GhostPost(e)
        ok  == e.res # "panic"
        qtp == IF ok THEN ToSet(e.qt_post) ELSE {}
    IN
    Cl("TOOL.ghost", ToSet(e.ghost_post) = gp) \cup
    Cl(P(e, "C13.total: the call panicked"), ok) \cup
    (IF ~ok THEN {} ELSE
       Cl(P(e, "C01+C13.noFalseNegative"), \A k \in Keys : Cls[k] \in gp => k \in qtp) \cup
       Cl(P(e, "C07+C13.noFalsePositive: present only if an indistinguishable element was inserted"), \A k \in qtp : Cls[k] \in gp) \cup
       Cl(P(e, "C13.len"), e.len_post = Cardinality(gp)) \cup
       Cl(P(e, "C19.isEmpty"), e.empty_post <=> (gp = {})) \cup
       Cl("C19.clone", e.twin_ok) \cup LockStepClause(e) \cup
       (IF e.op.name = "ins" THEN
           Cl(P(e, "C13.known"), (e.res = "known") <=> (e.cls \in g)) \cup
           Cl(P(e, "C13.full"), (e.res = "full") <=> (e.cls \notin g /\ e.len_pre = Cap))
        ELSE {}) \cup
       (IF e.res = "full" THEN
           Cl("C12.unchanged", e.qt_post = e.qt_pre /\ e.len_post = e.len_pre /\ e.empty_post = e.empty_pre)
        ELSE {}) \cup
       (IF e.op.name = "union" THEN
           Cl("C06+C12.otherUnchanged", e.other_same) \cup
           Cl("C06.fullOnlyIfNoRoom", e.res = "full" => Cardinality(g \cup ToSet(e.ghost_other)) > Cap)
        ELSE {}))

Init == PInit
Next == PNext(Failing)
Spec == Init /\ [][Next]_<<l, h>>
=============================================================================
