-------------------------------- MODULE P_TDigest --------------------------------
(* Property-level adjudication of t-digest calls: C16 (aggregates exact), C15 (shape  *)
(* of quantile/cdf), C04's centroid bound, C19.  Inputs are integers and dyadic        *)
(* weights (scaled by 16), so the expected aggregates are exact; quantile/cdf grids    *)
(* are recorded in 2^-16 fixed point (NaN as a sentinel).  Observations are made on a  *)
(* clone, so that observing does not trigger merges in the digest under test.          *)
EXTENDS PCommon
FP == 65536
NAN == -999999999
Tol == 3                      \* fixed-point units: floor on both sides plus a few ulps of the data range
INF == 1000000
QD == Hdr.qd                  \* quantile grid q = a / QD
XLo2 == Hdr.xlo2              \* cdf grid x_k = (XLo2 + k - 1) / 2
GhostPost(e) ==
    LET g == e.ghost_pre IN
    CASE e.op.name = "ins" /\ e.res = "ok" /\ e.op.w16 > 0 ->
           [w16 |-> g.w16 + e.op.w16, xw16 |-> g.xw16 + e.op.x * e.op.w16,
            mn |-> IF e.op.x < g.mn THEN e.op.x ELSE g.mn, mx |-> IF e.op.x > g.mx THEN e.op.x ELSE g.mx,
            any |-> TRUE, unit |-> g.unit /\ e.op.w16 = Hdr.unitw, n |-> g.n + 1]
      [] e.op.name = "clear" /\ e.res = "cleared" -> [w16 |-> 0, xw16 |-> 0, mn |-> INF, mx |-> -INF, any |-> FALSE, unit |-> TRUE, n |-> 0]
      [] OTHER -> g
Mono(s) == \A k \in 1 .. (Len(s) - 1) : s[k] <= s[k + 1] + Tol
P(e, base) == (IF Has(e, "alt") THEN "C19+" ELSE "") \o (IF e.op.name = "clear" THEN "C19+" ELSE "") \o base
Failing(e) ==
    LET gp == GhostPost(e)
        ok == e.res # "panic" /\ ~Has(e, "obs_panic")
        o  == IF ok THEN e.obs_post ELSE [q |-> <<>>]
    IN
    Cl("TOOL.ghost", e.ghost_post = gp) \cup
    Cl(P(e, "C16.total: the call panicked"), e.res # "panic") \cup
    Cl(P(e, "C15+C16.total: a read method (count/sum/mean/quantile/cdf/n_centroids) panicked"), ~Has(e, "obs_panic")) \cup
    (IF ~ok THEN {} ELSE
       Cl(P(e, "C16.count = sum of inserted weights"), o.count16 = gp.w16) \cup
       Cl(P(e, "C16.sum = weighted sum of inserted values"), o.sum16 = gp.xw16) \cup
       Cl(P(e, "C16.mean = sum / count"), o.mean_exact) \cup
       Cl(P(e, "C16.minMaxExact"), gp.any => (o.mn = gp.mn /\ o.mx = gp.mx)) \cup
       Cl(P(e, "C16+C19.isEmpty iff no positive weight since creation or clear"), o.empty <=> ~gp.any) \cup
       Cl("C16.zeroWeightInsertChangesNothing", (e.op.name = "ins" /\ e.op.w16 = 0) => e.obs_post = e.obs_pre) \cup
       Cl("C19.clone", e.twin_ok) \cup
       Cl("C19.clearedBehavesLikeFresh: same answers as a freshly constructed digest after the same calls", Has(e, "shadow_same") => e.shadow_same) \cup
       Cl("C19.configurationGettersNeverChange (a cleared digest keeps its configuration)", Has(e, "cfg_same") => e.cfg_same) \cup
       Cl(P(e, "C15.repeatedReadsIdentical"), o.reread_same) \cup
       Cl(P(e, "C04+C15.everyReadMethodAnswersTheSameAsFirstRead (reads in any order)"), o.first_read_same) \cup
       Cl(P(e, "C04.centroidBound: at most delta + 3 centroids after unit-weight inserts"),
          gp.unit => o.ncent * Hdr.dd <= Hdr.dn + 3 * Hdr.dd) \cup
       (IF ~gp.any THEN
          Cl(P(e, "C15.emptyReturnsNaNandZero"), (\A k \in 1 .. Len(o.q) : o.q[k] = NAN) /\ (\A k \in 1 .. Len(o.cdf) : o.cdf[k] = 0)
                                                   /\ o.cdf_inf = <<0, 0>>)
        ELSE
          Cl(P(e, "C15.quantileMonotone"), Mono(o.q)) \cup
          Cl(P(e, "C15.quantileWithinMinMax"), \A k \in 1 .. Len(o.q) : o.q[k] >= gp.mn * FP - Tol /\ o.q[k] <= gp.mx * FP + Tol) \cup
          Cl(P(e, "C15.quantile(0) = min"), o.q[1] <= gp.mn * FP + Tol /\ o.q[1] >= gp.mn * FP - Tol) \cup
          Cl(P(e, "C15.quantile(1) = max"), o.q[Len(o.q)] >= gp.mx * FP - Tol /\ o.q[Len(o.q)] <= gp.mx * FP + Tol) \cup
          Cl(P(e, "C15.cdfMonotone"), Mono(o.cdf)) \cup
          Cl(P(e, "C15.cdfWithin01"), \A k \in 1 .. Len(o.cdf) : o.cdf[k] >= 0 /\ o.cdf[k] <= FP) \cup
          Cl(P(e, "C15.cdfZeroBelowMinOneFromMax"),
             \A k \in 1 .. Len(o.cdf) : ((XLo2 + k - 1) < 2 * gp.mn => o.cdf[k] = 0) /\ ((XLo2 + k - 1) >= 2 * gp.mx => o.cdf[k] = FP)) \cup
          Cl(P(e, "C15.cdfAtInfinity: cdf(-inf) = 0 and cdf(+inf) = 1"), o.cdf_inf = <<0, FP>>) \cup
          Cl(P(e, "C15.cdfOfQuantileIsQ within the digest's resolution"),
             \A k \in 1 .. Len(o.cq) : LET q == ((k - 1) * FP) \div QD IN
                 \* cdf(quantile(q)) lies in [q, q + largest weight share of centroids sharing one mean];
                 \* cq_lo / cq_hi: cdf a few ulps of the data range below / above quantile(q) (cdf is monotone)
                 o.cq_hi[k] >= q - Tol /\ o.cq_lo[k] <= q + o.res_fp + Tol)))
Init == PInit
Next == PNext(Failing)
Spec == Init /\ [][Next]_<<l, h>>
=============================================================================
