CONSTANTS Q = 2
 R = 1
 EMIT = FALSE
SPECIFICATION Spec
INVARIANTS ExactSet WF
CHECK_DEADLOCK FALSE
