------------------------------- MODULE Gen_Bloom -------------------------------
(* E2 generator for the Bloom filter: one filter, the shift vector FS is the one  *)
(* of a concrete hasher (learned from the code), elements are all (h1, h2) pairs.  *)
EXTENDS Bloom, Json
CONSTANTS FSCODE, EMIT       \* shift vector encoded base M (cfg files cannot hold tuples)
FS == [i \in 1 .. Kh |-> (FSCODE \div (M ^ (i - 1))) % M]
\* (no ghost variable here: a history variable would multiply the 2^M bit states by the 2^(M*M)
\* subsets of elements; the property invariants over all histories are checked in MC_Bloom)
VARIABLES a
vars == <<a>>
Elems == Bits \X Bits
PV(x) == PosVec(x[1], x[2], FS)
Emit(rec) == IF EMIT THEN PrintT(ToJson(rec)) ELSE TRUE
St(s) == [bits |-> [i \in 1 .. M |-> IF (i - 1) \in s THEN 1 ELSE 0]]
Init == a = EmptyB /\ Emit([k |-> "init", cfg |-> [m |-> M, kh |-> Kh, fs |-> FS], st |-> St(EmptyB)])
InsertA(x) == LET r == Insert(a, PV(x)) IN
    /\ a' = r.f
    /\ Emit([k |-> "t", pre |-> St(a), op |-> [name |-> "ins", h1 |-> x[1], h2 |-> x[2]], post |-> St(r.f),
             res |-> IF r.ret THEN "new" ELSE "known",
             tags |-> (IF ~r.ret /\ a # {} THEN {"reported-known"} ELSE {}) \cup
                      (IF r.ret /\ Cardinality(PSet(PV(x)) \ a) < Cardinality(PSet(PV(x))) THEN {"partial-overlap"} ELSE {}) \cup
                      (IF Cardinality(PSet(PV(x))) < Kh THEN {"self-colliding-positions"} ELSE {})])
ClearA == a' = EmptyB
    /\ Emit([k |-> "t", pre |-> St(a), op |-> [name |-> "clear"], post |-> St(EmptyB), res |-> "cleared", tags |-> {}])
Next == (\E x \in Elems : InsertA(x)) \/ ClearA
Spec == Init /\ [][Next]_vars
=============================================================================
