-------------------------------- MODULE Lossy --------------------------------
(* Mechanism-level specification of src/topk/lossycounter.rs.  A counter value *)
(* is [known, n]: known maps the tracked elements to [f, delta].               *)
EXTENDS Naturals, Integers, Sequences, FiniteSets, FiniteSetsExt, TLC
CONSTANTS Width
EmptyL == [known |-> <<>>, n |-> 0]
CeilDiv(a, b) == (a + b - 1) \div b
\* add: pre-increment n, window index b = ceil(n / width); tracked -> f + 1, untracked -> (1, b - 1);
\* at the end of a window drop every entry with f + delta <= b.  Returns TRUE iff e was untracked.
Add(c, e) ==
    LET n1    == c.n + 1
        atEnd == n1 % Width = 0
        bcur  == n1 \div Width + (IF atEnd THEN 0 ELSE 1)
        k1    == IF e \in DOMAIN c.known
                 THEN [c.known EXCEPT ![e].f = @ + 1]
                 ELSE [x \in DOMAIN c.known \cup {e} |-> IF x = e THEN [f |-> 1, delta |-> bcur - 1] ELSE c.known[x]]
        keep  == {x \in DOMAIN k1 : k1[x].f + k1[x].delta > bcur}
        k2    == IF atEnd THEN [x \in keep |-> k1[x]] ELSE k1
    IN [c |-> [known |-> k2, n |-> n1], ret |-> e \notin DOMAIN c.known, pruned |-> Cardinality(DOMAIN k1) - Cardinality(DOMAIN k2)]
\* query(s) with s = a/D and epsilon = 1/Width: bound = max(0, ceil((s - epsilon) * n))
Bound(c, a, D) == LET num == (a * Width - D) * c.n IN IF num <= 0 THEN 0 ELSE CeilDiv(num, D * Width)
Query(c, a, D) == {x \in DOMAIN c.known : c.known[x].f >= Bound(c, a, D)}
=============================================================================
