----------------------------- MODULE MC_Reservoir -----------------------------
(* E1 + E2 for the reservoir sampler: every outcome of every draw up to NMax     *)
(* adds.  Plain phase: every j.  Switch (i = 4k): the unit draw is taken from    *)
(* the 4k+1 equiprobable cells u = (2c+1)/(2(4k+1)), which resolve the           *)
(* acceptance probability k/(4k+1) exactly and never sit on a boundary.  Later   *)
(* gaps: u from UGrid.  Each emitted transition carries the weight of its draw   *)
(* (all draws of one add are equiprobable up to these integer weights), which    *)
(* is what the exact-distribution check (P_ReservoirDist) sums over.             *)
EXTENDS Reservoir, Json
CONSTANTS NMax, GMax, EMIT
VARIABLES s
Emit(rec) == IF EMIT THEN PrintT(ToJson(rec)) ELSE TRUE
St(x) == [i |-> x.i, skip |-> x.skip, res |-> x.res]
Mu == 4 * K + 1
SkipCap == NMax + 1       \* skip_until values beyond the horizon are identified (the harness caps its dump alike)
UGrid == {<<63, 64>>, <<52, 64>>, <<40, 64>>, <<33, 64>>}        \* u = a/b for gaps after accepted items
Init == s = EmptyR /\ Emit([k |-> "init", cfg |-> [kk |-> K, skipcap |-> SkipCap], st |-> St(EmptyR)])
FillA == /\ s.i < K /\ s' = Fill(s)
         /\ Emit([k |-> "t", pre |-> St(s), op |-> [name |-> "add", script |-> <<>>, w |-> 1], post |-> St(Fill(s)), res |-> "ok", tags |-> {}])
PlainA == \E j \in DrawRange(s.i) :
    /\ s.i >= K /\ s.i < T /\ s' = Plain(s, j)
    /\ Emit([k |-> "t", pre |-> St(s), op |-> [name |-> "add", script |-> << [below |-> <<j, RangeSize(s.i)>>] >>, w |-> 1],
             post |-> St(Plain(s, j)), res |-> "ok",
             tags |-> (IF j < K THEN {"replaces"} ELSE {"keeps"}) \cup (IF j = s.i THEN {"draws-i-itself"} ELSE {})])
\* the add at i = 4k in the repaired mechanism: first gap from cell c, then (if accepted) next gap from u, slot j
SwitchA == \E c \in 0 .. (Mu - 1), u \in {<<63, 64>>}, j \in 0 .. (K - 1) :
    LET g0 == GapOfCap(2 * c + 1, 2 * Mu, s.i + 1, GMax + 2)
        g  == GapOf(u[1], u[2], s.i + 1, GMax)
        r  == GapStep(s, g0, g, j, SkipCap)
    IN /\ s.i = T /\ GapAtSwitch /\ g0 >= 0 /\ g >= 0
       /\ (~r.acc => j = 0)                   \* a rejected item makes no slot draw: one row of weight K
       /\ s' = Strip(r)
       /\ Emit([k |-> "t", pre |-> St(s),
                op |-> [name |-> "add", script |-> << [unitcell |-> <<2 * c + 1, 2 * Mu>>], [unitcell |-> u], [below |-> <<j, K>>] >>,
                        w |-> IF r.acc THEN 1 ELSE K],
                post |-> St(Strip(r)), res |-> "ok",
                tags |-> IF r.acc THEN {"switch-accepts"} ELSE {"switch-first-gap-skips"}])
\* gap phase proper (and the as-found switch): skipped items make no draw; accepted ones draw gap and slot
GapA == \E u \in UGrid, j \in 0 .. (K - 1) :
    LET g == GapOf(u[1], u[2], s.i + 1, GMax)
        r == GapStep(s, 0, g, j, SkipCap)
    IN /\ s.i >= T /\ ~(GapAtSwitch /\ s.i = T) /\ g >= 0 /\ ~GapTie(u[1], u[2], s.i + 1, g)
       /\ (~r.acc => (j = 0 /\ u = <<63, 64>>))
       /\ s' = Strip(r)
       /\ Emit([k |-> "t", pre |-> St(s),
                op |-> [name |-> "add", script |-> IF ~r.acc THEN <<>>
                                                   ELSE IF GapAtSwitch THEN << [unitcell |-> u], [below |-> <<j, K>>] >>
                                                   ELSE << [below |-> <<j, K>>], [unitcell |-> u] >>,    \* as found: slot first
                        w |-> 1],
                post |-> St(Strip(r)), res |-> "ok",
                tags |-> IF r.acc THEN {"gap-accepts"} ELSE {"gap-skips"}])
ClearA == /\ s.i > 0 /\ s' = EmptyR
          /\ Emit([k |-> "t", pre |-> St(s), op |-> [name |-> "clear"], post |-> St(EmptyR), res |-> "cleared", tags |-> {}])
Next == s.i < NMax /\ (FillA \/ PlainA \/ SwitchA \/ GapA \/ ClearA)
Spec == Init /\ [][Next]_s
ValidInv == Valid(s)
=============================================================================
