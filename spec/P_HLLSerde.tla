------------------------------ MODULE P_HLLSerde ------------------------------
(* Property-level adjudication of deserialisation outcomes (C20).               *)
EXTENDS PCommon
Pow2(k) == 2 ^ k
Failing(e) ==
    Cl("C20.deserialisePanicked", e.res # "panic") \cup
    (IF e.res = "ok" THEN
        Cl("C20.acceptedSatisfiesConstructorInvariants: 4 <= b <= 18 and exactly 2^b registers",
           e.got_b >= 4 /\ e.got_b <= 18 /\ e.got_m = Pow2(e.got_b)) \cup
        Cl("C20.acceptedSketchIsUsable: add/count/merge do not panic", Len(e.panicked_uses) = 0)
     ELSE {}) \cup
    (IF e.doc.valid THEN
        Cl("C20.validDocumentRoundTrips", e.res = "ok" /\ e.got_b = e.doc.b /\ e.regs_equal)
     ELSE {})
Init == PInit
Next == PNext(Failing)
Spec == Init /\ [][Next]_<<l, h>>
=============================================================================
