------------------------------ MODULE MC_TDigest ------------------------------
(* E1 for the t-digest mechanism: all histories of weighted inserts, reads and    *)
(* clears up to MaxOps with ARBITRARY fuse decisions (Scale = "any": holds for     *)
(* every scale function and merge schedule at once) or the pinned K0 rule.         *)
(* Ghost: sum of weights, weighted sum, least / greatest inserted value.           *)
EXTENDS TDigest
CONSTANTS MaxBacklog, Values, Weights, MaxOps, Scale, DeltaN, DeltaD, ClearResetsN
VARIABLES cs, bl, ns, mn, mx, ops, gW, gXW, gMin, gMax, gAny
vars == <<cs, bl, ns, mn, mx, ops, gW, gXW, gMin, gMax, gAny>>
INF == 1000000
Init == cs = <<>> /\ bl = <<>> /\ ns = 0 /\ mn = INF /\ mx = -INF /\ ops = 0
        /\ gW = 0 /\ gXW = 0 /\ gMin = INF /\ gMax = -INF /\ gAny = FALSE
Legal(x, d) == Scale # "K0" \/ LegalK0(x, 2, x[1], d, SumC(x), DeltaN, DeltaD)
MergeTo(newcs, all) ==
    LET x == SortStable(<<>>, all) IN
    \E d \in [1 .. (Len(x) - 1) -> BOOLEAN] : Legal(x, d) /\ newcs = Greedy(x, 2, x[1], <<>>, d)
Insert(x, w) ==
    /\ ops < MaxOps /\ ops' = ops + 1
    /\ IF w = 0 THEN UNCHANGED <<cs, bl, ns, mn, mx, gW, gXW, gMin, gMax, gAny>>
       ELSE LET bl1 == Append(bl, [c |-> w, s |-> x * w]) IN
            /\ ns' = ns + 1
            /\ mn' = (IF x < mn THEN x ELSE mn) /\ mx' = (IF x > mx THEN x ELSE mx)
            /\ gW' = gW + w /\ gXW' = gXW + x * w
            /\ gMin' = (IF x < gMin THEN x ELSE gMin) /\ gMax' = (IF x > gMax THEN x ELSE gMax)
            /\ gAny' = TRUE
            /\ IF Len(bl1) > MaxBacklog THEN MergeTo(cs', cs \o bl1) /\ bl' = <<>>
               ELSE cs' = cs /\ bl' = bl1
Read == /\ ops < MaxOps /\ ops' = ops + 1 /\ bl # <<>>
        /\ MergeTo(cs', cs \o bl) /\ bl' = <<>>
        /\ UNCHANGED <<ns, mn, mx, gW, gXW, gMin, gMax, gAny>>
Clear == /\ ops < MaxOps /\ ops' = ops + 1
         /\ cs' = <<>> /\ bl' = <<>> /\ ns' = (IF ClearResetsN THEN 0 ELSE ns) /\ mn' = INF /\ mx' = -INF
         /\ gW' = 0 /\ gXW' = 0 /\ gMin' = INF /\ gMax' = -INF /\ gAny' = FALSE
Next == (\E x \in Values, w \in Weights : Insert(x, w)) \/ Read \/ Clear
Spec == Init /\ [][Next]_vars
\* C16: aggregates exact (count()/sum() are read after a merge, i.e. over cs \o bl)
Mass == SumC(cs \o bl) = gW /\ SumS(cs \o bl) = gXW
MinMax == mn = gMin /\ mx = gMax
EmptyIff == (cs = <<>> /\ bl = <<>>) <=> ~gAny
\* mechanism invariants
Sorted == \A i \in 1 .. (Len(cs) - 1) : MeanLe(cs[i], cs[i + 1])
BacklogBound == Len(bl) <= MaxBacklog
Between == \A i \in 1 .. Len(cs) : mn * cs[i].c <= cs[i].s /\ cs[i].s <= mx * cs[i].c
\* C04 (K0 only): number of centroids after a merge
SizeK0 == (Scale = "K0" /\ bl = <<>>) => Len(cs) * DeltaD <= DeltaN + 3 * DeltaD
\* C19: a cleared digest is a fresh one in every field the scale functions read
ClearFresh == (~gAny /\ ClearResetsN) => ns = 0
=============================================================================
