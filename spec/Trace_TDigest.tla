----------------------------- MODULE Trace_TDigest -----------------------------
(* Mechanism-level validation of recorded t-digest calls (code -> spec), for every *)
(* scale function.  Each M-record carries the internal layout before and after the *)
(* call (centroids and backlog as <<count, sum>> pairs scaled by 16, n_samples,    *)
(* min, max), read through the hook without triggering a merge.  Accepted iff      *)
(*  - an insert appends <<w, x*w>> to the backlog, counts the sample, updates      *)
(*    min/max, and merges iff the backlog exceeds max_backlog_size;                *)
(*  - a read merges iff the backlog is non-empty;                                  *)
(*  - every merge yields a contiguous partition of the stably mean-sorted list of  *)
(*    old centroids followed by the backlog (legal greedy fuse), and for K0 every  *)
(*    fuse decision obeys the rational rule (either way at exact ties);            *)
(*  - clear resets every field.                                                    *)
EXTENDS TDigest, Json, IOUtils
CONSTANT ClearResetsN
Rec == ndJsonDeserialize(IOEnv.TRACE)
VARIABLES l, h            \* h: index of the header record in force (one per scenario)
Cfg == Rec[h].cfg
INF == 1000000
Cs(seq) == [i \in 1 .. Len(seq) |-> [c |-> seq[i][1], s |-> seq[i][2]]]
LegalMerge(all, out) ==
    LET x == SortStable(<<>>, all)
        r == RecoverDecisions(x, out)
    IN r.ok /\ (Cfg.scale = "K0" => LegalK0(x, 2, x[1], r.d, SumC(x), Cfg.dn, Cfg.dd))
\* TLC integers are 32-bit and the mean comparisons multiply a sum by a count: layouts with larger numbers
\* (long unit-weight prefixes) are outside what this module can evaluate and are skipped, not judged
Lim == 40000
SmallSeq(seq) == \A i \in 1 .. Len(seq) : seq[i][1] < Lim /\ seq[i][1] >= 0 /\ seq[i][2] < Lim /\ seq[i][2] > -Lim
Small(e) == SmallSeq(e.pre.cs) /\ SmallSeq(e.pre.bl) /\ SmallSeq(e.post.cs) /\ SmallSeq(e.post.bl)
Matches(e) ==
    LET pcs == Cs(e.pre.cs)  pbl == Cs(e.pre.bl)  qcs == Cs(e.post.cs)  qbl == Cs(e.post.bl) IN
    CASE e.op.name = "ins" ->
           IF e.op.w16 = 0 THEN e.post = e.pre
           ELSE LET bl1 == Append(pbl, [c |-> e.op.w16, s |-> e.op.x * e.op.w16]) IN
                /\ e.post.ns = e.pre.ns + 1
                /\ e.post.mn = (IF e.op.x < e.pre.mn THEN e.op.x ELSE e.pre.mn)
                /\ e.post.mx = (IF e.op.x > e.pre.mx THEN e.op.x ELSE e.pre.mx)
                /\ IF Len(bl1) > Cfg.mb THEN qbl = <<>> /\ LegalMerge(pcs \o bl1, qcs)
                   ELSE qcs = pcs /\ qbl = bl1
      [] e.op.name = "read" ->
           /\ e.post.ns = e.pre.ns /\ e.post.mn = e.pre.mn /\ e.post.mx = e.pre.mx
           /\ IF pbl = <<>> THEN qcs = pcs /\ qbl = <<>> ELSE qbl = <<>> /\ LegalMerge(pcs \o pbl, qcs)
      [] e.op.name = "clear" ->
           /\ qcs = <<>> /\ qbl = <<>> /\ e.post.mn = INF /\ e.post.mx = -INF
           /\ e.post.ns = (IF ClearResetsN THEN 0 ELSE e.pre.ns)
      [] OTHER -> TRUE
Init == l = 1 /\ h = 1
Next == /\ l <= Len(Rec)
        /\ IF Rec[l].k = "hdr" THEN h' = l
           ELSE /\ h' = h
                /\ IF Rec[l].k = "m" /\ Rec[l].res # "panic" /\ Small(Rec[l]) /\ ~Matches(Rec[l]) THEN PrintT(<<"MDRIFT", Rec[l].tid>>) ELSE TRUE
        /\ l' = l + 1
Spec == Init /\ [][Next]_<<l, h>>
Done == PrintT(<<"CHECKED", TLCGet("stats").diameter - 1, Len(Rec)>>)
=============================================================================
