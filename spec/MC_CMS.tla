-------------------------------- MODULE MC_CMS --------------------------------
(* E1 for the count-min sketch: two sketches, EVERY hasher (h1, h2 : Elems ->    *)
(* Cols and every shift vector), add_n with several weights incl. overflow,       *)
(* merge, clear; ghost true counts and totals.  Depth bounded by MaxOps.          *)
EXTENDS CMS
CONSTANTS Elems, Weights, MaxOps, FIXF       \* FIXF = TRUE: shifts fixed to 0 (they only permute the columns of a row)
VARIABLES h1, h2, fs, ta, tb, trueA, trueB, totA, totB, ops, deadA   \* deadA: sketch a has panicked (partial row updates remain)
vars == <<h1, h2, fs, ta, tb, trueA, trueB, totA, totB, ops, deadA>>
PV(x) == PosVec(h1[x], h2[x], fs)
ZeroC == [e \in Elems |-> 0]
Init == /\ h1 \in [Elems -> Cols] /\ h2 \in [Elems -> Cols]
        /\ fs \in (IF FIXF THEN {[i \in 1 .. D |-> 0]} ELSE [1 .. D -> Cols])
        /\ ta = Zero /\ tb = Zero /\ trueA = ZeroC /\ trueB = ZeroC /\ totA = 0 /\ totB = 0 /\ ops = 0 /\ deadA = FALSE
AddA(x, n) == LET r == AddN(ta, PV(x), n) IN
    /\ ops < MaxOps /\ ops' = (IF r.res = "ok" THEN ops + 1 ELSE MaxOps)   \* a panicked sketch is not used again
    /\ ta' = r.t /\ deadA' = (r.res # "ok")
    /\ IF r.res = "ok"
       THEN /\ Assert(r.ret = Query(r.t, PV(x)), "C02 add returns the value query_point reports afterwards")
            /\ trueA' = [trueA EXCEPT ![x] = @ + n] /\ totA' = totA + n
       ELSE /\ Assert(totA + n > CMax, "C02 add panics only when the stream total exceeds the counter type")
            /\ UNCHANGED <<trueA, totA>>
    /\ UNCHANGED <<h1, h2, fs, tb, trueB, totB>>
AddB(x, n) == LET r == AddN(tb, PV(x), n) IN
    /\ ops < MaxOps /\ ops' = ops + 1 /\ r.res = "ok"
    /\ tb' = r.t /\ trueB' = [trueB EXCEPT ![x] = @ + n] /\ totB' = totB + n
    /\ UNCHANGED <<h1, h2, fs, ta, trueA, totA, deadA>>
MergeAB == LET r == Merge(ta, tb) IN
    /\ ops < MaxOps /\ ops' = (IF r.res = "ok" THEN ops + 1 ELSE MaxOps)
    /\ Assert(r.res = "panic" => totA + totB > CMax, "C02 merge panics only when the merged total exceeds the counter type")
    /\ ta' = r.t /\ deadA' = (r.res # "ok")
    /\ IF r.res = "ok" THEN trueA' = [e \in Elems |-> trueA[e] + trueB[e]] /\ totA' = totA + totB
       ELSE UNCHANGED <<trueA, totA>>
    /\ UNCHANGED <<h1, h2, fs, tb, trueB, totB>>
ClearA == /\ ops < MaxOps /\ ops' = ops + 1
          /\ ta' = Zero /\ trueA' = ZeroC /\ totA' = 0
          /\ UNCHANGED <<h1, h2, fs, tb, trueB, totB, deadA>>
Next == (\E x \in Elems, n \in Weights : AddA(x, n) \/ AddB(x, n)) \/ MergeAB \/ ClearA
Spec == Init /\ [][Next]_vars
\* C02 (a sketch that has panicked is excluded: ops = MaxOps and nothing is asserted about it later)
Bounds == \A x \in Elems : /\ trueA[x] <= Query(ta, PV(x)) /\ Query(ta, PV(x)) <= totA
                           /\ trueB[x] <= Query(tb, PV(x)) /\ Query(tb, PV(x)) <= totB
Single == \A x \in Elems : (\A y \in Elems \ {x} : trueA[y] = 0) => Query(ta, PV(x)) = trueA[x]
\* C06: every cell is exactly the sum of the true weights of the elements mapped to it, so a merged
\* sketch is the sketch of both streams (and merge is commutative and associative)
RECURSIVE SumTrue(_, _)
SumTrue(tr, S) == IF S = {} THEN 0 ELSE LET x == CHOOSE y \in S : TRUE IN tr[x] + SumTrue(tr, S \ {x})
Linear == /\ (~deadA => \A r \in Rows, c \in Cols : ta[r][c] = SumTrue(trueA, {x \in Elems : PV(x)[r + 1] = c}))
          /\ \A r \in Rows, c \in Cols : tb[r][c] = SumTrue(trueB, {x \in Elems : PV(x)[r + 1] = c})
EmptyIff == (~deadA => (IsEmpty(ta) <=> totA = 0)) /\ (IsEmpty(tb) <=> totB = 0)
=============================================================================
