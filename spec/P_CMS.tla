--------------------------------- MODULE P_CMS ---------------------------------
(* Property-level adjudication of count-min sketch calls: C02, C06, C19.          *)
(* Ghost: true weight per universe key and the stream total since the last clear. *)
(* Observables: query_point of every universe key, is_empty, add's return value.  *)
EXTENDS PCommon
NKeys == Hdr.nkeys
Keys  == 1 .. NKeys
CMaxP == Hdr.cmax              \* largest value of the counter type (0 = too large for TLC: overflow not judged)
RECURSIVE SumSeq(_, _)
SumSeq(s, i) == IF i = 0 THEN 0 ELSE s[i] + SumSeq(s, i - 1)
Tot(g) == SumSeq(g, Len(g))
GhostPost(e) ==
    LET g == e.ghost_pre IN
    CASE e.op.name = "add"   -> IF e.res = "ok" THEN [g EXCEPT ![e.key] = @ + e.op.n] ELSE g
      [] e.op.name = "clear" -> IF e.res = "cleared" THEN [k \in Keys |-> 0] ELSE g
      [] e.op.name = "merge" -> IF e.res = "ok" THEN [k \in Keys |-> g[k] + e.ghost_other[k]] ELSE g
P(e, base) ==
    LET alt == IF Has(e, "alt") THEN "C19+" ELSE ""
        op  == CASE e.op.name = "merge" -> "C06+" [] e.op.name = "clear" -> "C19+" [] OTHER -> ""
    IN alt \o op \o base
Failing(e) ==
    IF e.res = "dead" THEN {} ELSE
    LET g  == e.ghost_pre
        gp == GhostPost(e)
        ok == e.res # "panic"
    IN
    Cl("TOOL.ghost", e.ghost_post = gp) \cup
    (IF ~ok THEN
       \* an overflow panic of a small counter type is legitimate only if the stream total overflows
       Cl(P(e, "C02.panicOnlyOnOverflow"),
          CMaxP > 0 /\ ((e.op.name = "add" /\ Tot(g) + e.op.n > CMaxP) \/ (e.op.name = "merge" /\ Tot(g) + Tot(e.ghost_other) > CMaxP))) \cup
       \* a refused (overflowing) add or merge must not take away anything that was counted before it
       (IF Has(e, "q_panic") THEN Cl(P(e, "C02.neverUnderestimates (after a refused overflowing call)"), \A k \in Keys : e.q_panic[k] >= g[k]) ELSE {})
     ELSE
       Cl(P(e, "C02.neverUnderestimates"), \A k \in Keys : e.q_post[k] >= gp[k]) \cup
       Cl(P(e, "C02.neverExceedsTotal"), \A k \in Keys : e.q_post[k] <= Tot(gp)) \cup
       Cl(P(e, "C02.singleElementExact"), \A k \in Keys : (\A j \in Keys \ {k} : gp[j] = 0) => e.q_post[k] = gp[k]) \cup
       Cl(P(e, "C19.isEmpty"), e.empty_post <=> (Tot(gp) = 0)) \cup
       Cl("C19.clone", e.twin_ok) \cup LockStepClause(e) \cup
       (IF e.op.name = "add" THEN Cl("C02.addReturnsQuery", e.ret = e.q_post[e.key]) ELSE {}) \cup
       (IF e.op.name = "clear" THEN Cl("C19.clearedAnswersLikeFresh", \A k \in Keys : e.q_post[k] = 0) ELSE {}) \cup
       (IF e.op.name = "merge" THEN
           Cl("C06.otherUnchanged", e.other_same) \cup
           Cl("C06.equivalentToBothStreams", Has(e, "ref_q") => (e.q_post = e.ref_q /\ e.empty_post = e.ref_empty))
        ELSE {}))
Init == PInit
Next == PNext(Failing)
Spec == Init /\ [][Next]_<<l, h>>
=============================================================================
