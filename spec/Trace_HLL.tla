------------------------------- MODULE Trace_HLL -------------------------------
(* Mechanism-level validation of recorded HyperLogLog calls (small b, full dumps). *)
EXTENDS HLL, Json, IOUtils
Rec == ndJsonDeserialize(IOEnv.TRACE)
Unpack(st) == [j \in Regs |-> st.reg[j + 1]]
Matches(e) ==
    LET pre == Unpack(e.pre) IN
    CASE e.op.name = "add"   -> e.res = "ok" /\ AddHashed(pre, e.margs.h) = Unpack(e.post)
      [] e.op.name = "clear" -> e.res = "cleared" /\ Unpack(e.post) = ZeroR
      [] e.op.name = "merge" -> e.res = "ok" /\ Merge(pre, Unpack(e.b)) = Unpack(e.post)
      [] OTHER -> TRUE
VARIABLE l
Init == l = 1
Next == /\ l <= Len(Rec)
        /\ IF Rec[l].k = "m" /\ ~Matches(Rec[l]) THEN PrintT(<<"MDRIFT", Rec[l].tid>>) ELSE TRUE
        /\ l' = l + 1
Spec == Init /\ [][Next]_l
Done == PrintT(<<"CHECKED", TLCGet("stats").diameter - 1, Len(Rec)>>)
=============================================================================
