------------------------------ MODULE P_Constructors ------------------------------
(* Judges constructor outcomes against the documented argument contracts           *)
(* (extra coverage beyond the listed properties; clause prefix "X.").               *)
EXTENDS PCommon
Failing(e) ==
    Cl("X.constructorAcceptsDocumentedArguments", e.case.ok => e.res = "ok") \cup
    Cl("X.constructorRejectsUndocumentedArguments", ~e.case.ok => e.res = "panic") \cup
    Cl("X.gettersReturnTheConfiguration", e.res = "ok" => e.getters_ok)
Init == PInit
Next == PNext(Failing)
Spec == Init /\ [][Next]_<<l, h>>
=============================================================================
