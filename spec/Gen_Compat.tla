------------------------------- MODULE Gen_Compat -------------------------------
(* Operand compatibility of union / merge (C01, C06): the five mergeable structures *)
(* document that both operands must have the same configuration and EQUAL hashers;   *)
(* the library checks this with `==` on the hasher and panics otherwise.  Model: an   *)
(* operand pair is (structure, seed of A, how B differs from A); seeds are 64-bit     *)
(* values given as two 32-bit halves (TLC integers are 32-bit), so that hashers which  *)
(* differ only in their high half are part of the space.  For every pair the harness   *)
(* (compat.rs) builds both operands with `BuildHasherSeeded`, feeds them disjoint and   *)
(* overlapping elements, runs the union / merge under catch_unwind and reports whether  *)
(* it was accepted and, if so, whether the result still reports everything both sides   *)
(* held (P_Compat judges).                                                              *)
EXTENDS Integers, Sequences, FiniteSets, TLC, Json
CONSTANT EMIT
VARIABLE c
Structures == {"bloom", "cuckoo", "quotient", "cms", "hll"}
Halves == {0, 1, 7}
\* how B is derived from A
Kinds == {"same", "seed-low", "seed-high", "seed-both", "param1", "param2"}
Compatible(k) == k = "same"
Emit(rec) == IF EMIT THEN PrintT(ToJson(rec)) ELSE TRUE
Init == \E s \in Structures, lo \in Halves, hi \in Halves, k \in Kinds :
          /\ c = [s |-> s, lo |-> lo, hi |-> hi, kind |-> k]
          /\ Emit([k |-> "case", s |-> s, lo |-> lo, hi |-> hi, kind |-> k, compatible |-> Compatible(k)])
Next == UNCHANGED c
Spec == Init /\ [][Next]_c
Inv == Compatible(c.kind) <=> c.kind = "same"
=============================================================================
