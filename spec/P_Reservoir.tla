------------------------------ MODULE P_Reservoir ------------------------------
(* Property-level adjudication of reservoir sampler calls: C18 (valid sample),    *)
(* C19, and the deterministic gap-sampling clause of C05: given the scripted unit  *)
(* value u that determined a gap, the next accepted item is exactly base + g with  *)
(* (1-p)^(g+1) < u <= (1-p)^g, p = k/(i+1).  Items are stream positions.           *)
EXTENDS PCommon
KK == Hdr.kk
MinI(a, b) == IF a < b THEN a ELSE b
GapOKp(a, b, i1, g) == /\ ((i1 - KK) ^ (g + 1)) * b < a * (i1 ^ (g + 1))
                       /\ a * (i1 ^ g) <= b * ((i1 - KK) ^ g)
\* horizon of the gap clause: the largest g such that 64 * (i+1)^(g+1) stays under 2^31 (unit values are a/64)
GMaxOf(i1) == CASE i1 <= 5 -> 9 [] i1 = 6 -> 8 [] i1 \in {7, 8} -> 7 [] i1 \in {9, 10} -> 6 [] i1 \in 11 .. 16 -> 5 [] OTHER -> 4
P(e, base) == (IF Has(e, "alt") THEN "C19+" ELSE "") \o (IF e.op.name = "clear" THEN "C19+" ELSE "") \o base
Failing(e) ==
    LET ok == e.res # "panic"
        n  == CASE e.op.name = "add" -> e.n_pre + 1 [] e.op.name = "ext" -> e.n_pre + e.op.count [] OTHER -> 0
        r  == IF ok THEN e.res_post ELSE <<>>
    IN
    Cl(P(e, "C18.addNeverPanics"), ok) \cup
    (IF ~ok THEN {} ELSE
       Cl(P(e, "C18.size: exactly min(n, k) items"), Len(r) = MinI(n, KK)) \cup
       Cl(P(e, "C18.itemsAreStreamPositions"), \A x \in 1 .. Len(r) : r[x] >= 0 /\ r[x] < n) \cup
       Cl(P(e, "C18.noPositionTwice"), \A x, y \in 1 .. Len(r) : x # y => r[x] # r[y]) \cup
       Cl(P(e, "C18.prefixInOrderUntilFull"), n <= KK => r = [x \in 1 .. n |-> x - 1]) \cup
       Cl(P(e, "C18.iCountsAdds"), e.i_post = n) \cup
       Cl(P(e, "C18+C19.isEmpty"), e.empty_post <=> (n = 0)) \cup
       Cl("C19.clone", e.twin_ok) \cup LockStepClause(e) \cup
       (IF e.op.name = "add" /\ Has(e, "gap") /\ e.gap.u[1] > 0 /\ e.gap.gi + 1 <= 30 THEN
          \* gap clause: this add is at index idx = n_pre; the pending gap was determined by u at index gi from base
          LET GMaxP == GMaxOf(e.gap.gi + 1)
              gs == {g \in 0 .. GMaxP : GapOKp(e.gap.u[1], e.gap.u[2], e.gap.gi + 1, g)}
              idx == e.n_pre
              accepted == \E x \in 1 .. Len(r) : r[x] = idx
              \* u so small that the gap exceeds GMaxP: u <= (1-p)^(GMaxP+1), then every item up to base + GMaxP is skipped
              long == e.gap.u[1] * ((e.gap.gi + 1) ^ (GMaxP + 1)) <= e.gap.u[2] * ((e.gap.gi + 1 - KK) ^ (GMaxP + 1))
          IN IF gs = {} THEN
               (IF long THEN Cl("C05.gapSampling: no item is accepted before the gap drawn from the geometric law has passed (long gap)",
                                idx <= e.gap.base + GMaxP => ~accepted)
                ELSE {})
             ELSE
             LET g == CHOOSE x \in gs : TRUE IN
             Cl("C05.gapSampling: accepted item is exactly base + g, g from the geometric law with p = k/(i+1)",
                idx <= e.gap.base + g => (accepted <=> idx = e.gap.base + g))
        ELSE {}))
Init == PInit
Next == PNext(Failing)
Spec == Init /\ [][Next]_<<l, h>>
=============================================================================
