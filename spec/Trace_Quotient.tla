---------------------------- MODULE Trace_Quotient ----------------------------
(* Mechanism-level trace validation, code -> spec.  Every M-record is          *)
(* self-contained: slot dump before the call (through the verif hook), the     *)
(* call, the reported result and the slot dump afterwards (for union also the  *)
(* other operand).  The record is accepted iff the pure operator of the        *)
(* M-spec maps the recorded pre-state to exactly the recorded post-state and   *)
(* result.  A mismatch is DRIFT (the code no longer follows the mechanism      *)
(* spec), reported but never a verdict; verdicts come from the P-specs.        *)
EXTENDS Quotient, Json, IOUtils

Rec == ndJsonDeserialize(IOEnv.TRACE)
Unpack(st) == [occ   |-> [s \in Slots |-> (st.sl[s + 1] % 2) = 1],
               cont  |-> [s \in Slots |-> ((st.sl[s + 1] \div 2) % 2) = 1],
               shift |-> [s \in Slots |-> ((st.sl[s + 1] \div 4) % 2) = 1],
               rem   |-> [s \in Slots |-> st.sl[s + 1] \div 8],
               n     |-> st.n]
Expected(e) ==
    LET pre == Unpack(e.pre) IN
    CASE e.op.name = "ins"   -> LET r == Insert(pre, e.margs.fp) IN <<r.f, r.res>>
      [] e.op.name = "clear" -> <<Empty, "cleared">>
      [] e.op.name = "union" -> LET r == Union(pre, Unpack(e.b)) IN <<r.f, r.res>>
Matches(e) == e.res # "panic" /\ LET x == Expected(e) IN x[1] = Unpack(e.post) /\ x[2] = e.res

VARIABLE l
Init == l = 1
Next == /\ l <= Len(Rec)
        /\ IF Rec[l].k = "m" /\ ~Matches(Rec[l]) THEN PrintT(<<"MDRIFT", Rec[l].tid>>) ELSE TRUE
        /\ l' = l + 1
Spec == Init /\ [][Next]_l
Done == PrintT(<<"CHECKED", TLCGet("stats").diameter - 1, Len(Rec)>>)
=============================================================================
