------------------------------ MODULE P_TDigestRank ------------------------------
(* C04: rank accuracy and bounded size on long unit-weight streams.  A record is a     *)
(* checkpoint of a digest after n inserts: the inserted values (integers), the         *)
(* quantiles on a QD-grid and cdf on a sample of the values (fixed point), the number   *)
(* of centroids.  W(scale, delta, n) is over-approximated in integers (pi < 3.1416,     *)
(* ln x <= ceil(log2 x) * 0.6932) and the loosest multiple the statement allows (3 W)   *)
(* is used, so the check is never stricter than the property.                           *)
EXTENDS PCommon
CeilDiv(a, b) == (a + b - 1) \div b
Abs(a) == IF a < 0 THEN -a ELSE a
RECURSIVE Bits(_)
Bits(x) == IF x <= 1 THEN 0 ELSE 1 + Bits((x + 1) \div 2)      \* ceil(log2 x)
\* W * 10^4, rounded up; delta = dn / dd
W4(scale, dn, dd, n) ==
    LET lg == Bits(CeilDiv(n * dd, dn)) IN
    CASE scale = "K0" -> CeilDiv(20000 * dd, dn)
      [] scale = "K1" -> CeilDiv(31416 * dd, dn)
      [] scale = "K2" -> CeilDiv((lg * 6932 + 60000) * dd, dn)
      [] scale = "K3" -> CeilDiv((2 * lg * 6932 + 105000) * dd, dn)
\* The harness ranks every returned value among the inserted values: lt = #{x < v}, le = #{x <= v} (with a few
\* ulps of slack, so that a result an ulp beside a tied value is ranked with the tie).  With ties the empirical
\* rank of v is the whole interval [lt, le]/n; the error is the distance of q (or of cdf(x)) from that interval.
Failing(e) ==
    LET n   == e.n
        w4  == W4(Hdr.scale, Hdr.dn, Hdr.dd, n)
        \* allowance in items: (3 W + 2/n) * n = 3 W n + 2, rounded up
        rhs0 == CeilDiv(3 * w4 * CeilDiv(n, 100), 100) + 2
        rhs == IF rhs0 > n THEN n ELSE rhs0      \* an allowance above n items is vacuous (and would overflow below)
        big == n * Hdr.dd >= Hdr.dn             \* K2/K3 widths are stated for n >= delta
    IN
    Cl("C04.centroidBound: at most delta + 3 centroids", e.ncent * Hdr.dd <= Hdr.dn + 3 * Hdr.dd) \cup
    (IF ~big /\ Hdr.scale \in {"K2", "K3"} THEN {} ELSE
       Cl("C04.quantileRankError <= 3 W + 2/n",
          \A a \in 0 .. e.qd : (e.q_lt[a + 1] - rhs) * e.qd <= a * n /\ a * n <= (e.q_le[a + 1] + rhs) * e.qd) \cup
       Cl("C04.cdfRankError <= 3 W + 2/n",
          \A k \in 1 .. Len(e.cx) : (e.c_lt[k] - rhs - 1) * 4096 <= e.cdf[k] * n /\ e.cdf[k] * n <= (e.c_le[k] + rhs + 1) * 4096))
Init == PInit
Next == PNext(Failing)
Spec == Init /\ [][Next]_<<l, h>>
=============================================================================
