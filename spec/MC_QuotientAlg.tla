------------------------------ MODULE MC_QuotientAlg ------------------------------
(* C06 algebra for the quotient filter union, over all reachable triples.    *)
EXTENDS Quotient
VARIABLES a, b, c
vars == <<a, b, c>>
Init == a = Empty /\ b = Empty /\ c = Empty
Ins(f, fp) == LET r == Insert(f, fp) IN IF r.res = "full" THEN f ELSE r.f
Next == \E fp \in FPs : \/ a' = Ins(a, fp) /\ UNCHANGED <<b, c>>
                        \/ b' = Ins(b, fp) /\ UNCHANGED <<a, c>>
                        \/ c' = Ins(c, fp) /\ UNCHANGED <<a, b>>
Spec == Init /\ [][Next]_vars
U(x, y) == Union(x, y)
\* the layout is canonical, so observational identity is plain equality of the slot arrays
Comm == LET ab == U(a, b)  ba == U(b, a) IN ab.res = ba.res /\ (ab.res = "ok" => ab.f = ba.f)
Idem == U(a, a).res = "ok" /\ U(a, a).f = a
Twice == LET ab == U(a, b) IN ab.res = "ok" => (U(ab.f, b).res = "ok" /\ U(ab.f, b).f = ab.f)
Assoc == LET ab == U(a, b)  bc == U(b, c) IN
         (ab.res = "ok" /\ bc.res = "ok") =>
            LET l == U(ab.f, c)  r == U(a, bc.f) IN l.res = r.res /\ (l.res = "ok" => l.f = r.f)
=============================================================================
