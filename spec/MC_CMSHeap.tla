------------------------------ MODULE MC_CMSHeap ------------------------------
(* E1 + E2 for CMSHeap: every assignment of base hashes (h1, h2) to NE elements   *)
(* under the shift vector of the sketch's (fixed, SipHash) hasher, every stream   *)
(* up to NMax adds, every prefix; clear.                                          *)
EXTENDS CMSHeap, Hashing, Json
CONSTANTS NE, NMax, FSCODE, EMIT
Elems == 1 .. NE
FS == [i \in 1 .. Dd |-> (FSCODE \div (W ^ (i - 1))) % W]
VARIABLES hh, h, true
vars == <<hh, h, true>>
PV(e) == [i \in 1 .. Dd |-> HPos(W, hh[e][1], hh[e][2], FS[i], i - 1)]
Emit(rec) == IF EMIT THEN PrintT(ToJson(rec)) ELSE TRUE
Chk(cond, msg) == IF EMIT THEN TRUE ELSE Assert(cond, msg)
HH == [e \in Elems |-> <<hh[e][1], hh[e][2]>>]
St(x) == [t   |-> [r \in 1 .. Dd |-> [c \in 1 .. W |-> x.table[r - 1][c - 1]]],
          o2c |-> [e \in Elems |-> IF e \in DOMAIN x.o2c THEN x.o2c[e] ELSE 0],
          tree |-> x.tree, hh |-> HH]
ZeroT == [e \in Elems |-> 0]
\* without loss of generality the assignment is tried up to renaming of elements: hh non-decreasing is NOT assumed
\* (element order matters for tie-breaking in the tree)
Init == /\ hh \in [Elems -> Cols \X Cols] /\ h = EmptyH /\ true = ZeroT
        /\ Emit([k |-> "init", cfg |-> [kk |-> K, w |-> W, d |-> Dd, ne |-> NE, hh |-> HH], st |-> St(EmptyH)])
N == FoldSet(LAMBDA e, acc : acc + true[e], 0, Elems)
AddE(e) == LET r == Add(h, PV(e), e) IN
    /\ N < NMax
    /\ h' = r /\ true' = [true EXCEPT ![e] = @ + 1] /\ UNCHANGED hh
    /\ Emit([k |-> "t", pre |-> St(h), op |-> [name |-> "add", e |-> e], post |-> St(r), res |-> "ok",
             tags |-> (IF e \notin DOMAIN h.o2c /\ Cardinality(DOMAIN h.o2c) = K /\ e \in DOMAIN r.o2c THEN {"displaces-minimum"} ELSE {}) \cup
                      (IF e \notin DOMAIN h.o2c /\ Cardinality(DOMAIN h.o2c) = K /\ e \notin DOMAIN r.o2c THEN {"newcomer-rejected"} ELSE {}) \cup
                      (IF e \notin DOMAIN h.o2c /\ CmsQuery(r.table, PV(e)) > true[e] + 1 THEN {"first-seen-overestimated"} ELSE {}) \cup
                      (IF e \in DOMAIN h.o2c /\ Cardinality(h.tree) > 1 THEN {"re-key"} ELSE {})])
ClearH == /\ N > 0 /\ h' = EmptyH /\ true' = ZeroT /\ UNCHANGED hh
          /\ Emit([k |-> "t", pre |-> St(h), op |-> [name |-> "clear"], post |-> St(EmptyH), res |-> "cleared", tags |-> {}])
Next == (\E e \in Elems : AddE(e)) \/ ClearH
Spec == Init /\ [][Next]_vars
Seen == {e \in Elems : true[e] > 0}
MinK(a, b) == IF a < b THEN a ELSE b
\* C10: shape of the result and consistency of the two indexes
Shape == /\ Cardinality(h.tree) = MinK(K, Cardinality(Seen))
         /\ Cardinality(Result(h)) = Cardinality(h.tree)
         /\ Result(h) \subseteq Seen
         /\ Result(h) = DOMAIN h.o2c
         /\ \A x \in h.tree : h.o2c[x[2]] = x[1]
MaxOf(S) == CHOOSE x \in S : \A y \in S : x >= y
E == MaxOf({CmsQuery(h.table, PV(e)) - true[e] : e \in Elems})
\* an element is missing only if at least K others have true counts >= its count - E
TopK == \A x \in Seen \ Result(h) : Cardinality({y \in Elems \ {x} : true[y] >= true[x] - E}) >= K
\* stored counts never underestimate
StoredGeTrue == \A e \in DOMAIN h.o2c : h.o2c[e] >= true[e] \/ h.o2c[e] >= 1
=============================================================================
